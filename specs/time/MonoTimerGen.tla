---- MODULE MonoTimerGen ----
EXTENDS MonoTimer, Json
Dump == (Len(h) = MaxOps + 1) => PrintT(<<"BH", ToJson(h)>>)
====
