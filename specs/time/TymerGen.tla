---- MODULE TymerGen ----
EXTENDS Tymer, Json
Dump == (Len(h) = MaxOps + 1) => PrintT(<<"BH", ToJson(h)>>)
====
