---- MODULE MonoTimer ----
\* hio.help.timing.MonoTimer against a wall clock that may be stepped backwards (property C08, second half).
\* wall is the value time.time() returns; the environment sets it to any value (forward or backward) between
\* calls. start/stop/last are the timer's fields, `latest` is modelled as coded (retro=True).
EXTENDS Integers, Sequences, TLC
CONSTANTS Walls, Durs, MaxOps
VARIABLES wall, start, stop, last, h, lastElapsed, wasExpired
vars == <<wall, start, stop, last, h, lastElapsed, wasExpired>>
None == -999
Init == /\ wall \in Walls /\ \E d \in Durs : start = wall /\ stop = wall + d /\ last = wall
                                              /\ h = <<[op |-> "new", a |-> d, w |-> wall, obs |-> <<>>]>>
        /\ lastElapsed = 0 /\ wasExpired = FALSE
Delta(w) == w - last
\* one reading of elapsed / remaining / expired at clock value w (each property read calls latest once; the
\* adapter reads elapsed, then remaining, then expired with the clock held still, so one shift applies)
Read(w) == /\ wall' = w
           /\ LET d == Delta(w)
                  st == IF d < 0 THEN start + d ELSE start
                  sp == IF d < 0 THEN stop + d ELSE stop
                  la == last + d IN
              /\ start' = st /\ stop' = sp /\ last' = la
              /\ h' = Append(h, [op |-> "read", a |-> None, w |-> w,
                                 obs |-> [elapsed |-> la - st, remaining |-> sp - la, expired |-> (la >= sp)]])
              /\ lastElapsed' = la - st /\ wasExpired' = (la >= sp)
Start(w, d) == /\ wall' = w /\ start' = w /\ last' = w /\ stop' = w + (IF d = None THEN stop - start ELSE d)
               /\ h' = Append(h, [op |-> "start", a |-> d, w |-> w, obs |-> <<>>])
               /\ lastElapsed' = 0 /\ wasExpired' = FALSE
Restart(d) == /\ start' = stop /\ stop' = stop + (IF d = None THEN stop - start ELSE d) /\ UNCHANGED <<wall, last>>
              /\ h' = Append(h, [op |-> "restart", a |-> d, w |-> wall, obs |-> <<>>])
              /\ lastElapsed' = last - stop /\ wasExpired' = FALSE
Next == /\ Len(h) <= MaxOps
        /\ \/ \E w \in Walls : Read(w)
           \/ \E w \in Walls, d \in Durs \cup {None} : Start(w, d)
           \/ \E d \in Durs \cup {None} : Restart(d)
Spec == Init /\ [][Next]_vars
MCView == <<wall, start, stop, last, lastElapsed, wasExpired, Len(h), h[Len(h)].op>>
\* C08: between starts/restarts elapsed never decreases and expired never reverts, whatever the clock does
ElapsedMonotone == [][(h'[Len(h')].op = "read" /\ Len(h') > Len(h)) => lastElapsed' >= lastElapsed]_vars
ExpiredSticky == [][(h'[Len(h')].op = "read" /\ Len(h') > Len(h) /\ wasExpired) => wasExpired']_vars
====
