---- MODULE Tymer ----
\* hio.base.tyming.Tymer on a Tymist's virtual tyme (property C08, first half).
\* One action per public call; obs is what the public properties report after the call.
EXTENDS Integers, Sequences, TLC
CONSTANTS Vals,      \* tyme values the tymist may be set to (includes rewinds)
          Durs,      \* durations
          Ticks,     \* tick sizes
          MaxOps
VARIABLES tyme, start, stop, h
vars == <<tyme, start, stop, h>>
Obs == [elapsed |-> tyme - start, remaining |-> stop - tyme, expired |-> (tyme >= stop), duration |-> stop - start, tyme |-> tyme]
Log(op, a, b) == h' = Append(h, [op |-> op, a |-> a, b |-> b,
                                 obs |-> [elapsed |-> tyme' - start', remaining |-> stop' - tyme', expired |-> (tyme' >= stop'),
                                          duration |-> stop' - start', tyme |-> tyme']])
None == -999
Init == /\ tyme \in Vals /\ \E d \in Durs, s \in Vals \cup {None} :
             /\ start = (IF s = None THEN tyme ELSE s) /\ stop = (IF s = None THEN tyme ELSE s) + d
             /\ h = <<[op |-> "new", a |-> d, b |-> s, obs |-> [elapsed |-> tyme - start, remaining |-> stop - tyme,
                       expired |-> (tyme >= stop), duration |-> stop - start, tyme |-> tyme]]>>
SetTyme(t) == tyme' = t /\ UNCHANGED <<start, stop>> /\ Log("settyme", t, None)
Tick(t) == tyme' = tyme + t /\ UNCHANGED <<start, stop>> /\ Log("tick", t, None)
Start(d, s) == /\ start' = (IF s = None THEN tyme ELSE s)
               /\ stop' = start' + (IF d = None THEN stop - start ELSE d)
               /\ UNCHANGED tyme /\ Log("start", d, s)
Restart(d) == /\ start' = stop /\ stop' = stop + (IF d = None THEN stop - start ELSE d)
              /\ UNCHANGED tyme /\ Log("restart", d, None)
Next == /\ Len(h) <= MaxOps
        /\ \/ \E t \in Vals : SetTyme(t)
           \/ \E t \in Ticks : Tick(t)
           \/ \E d \in Durs \cup {None}, s \in Vals \cup {None} : Start(d, s)
           \/ \E d \in Durs \cup {None} : Restart(d)
Spec == Init /\ [][Next]_vars
\* C08: exact arithmetic of the reports (by construction of Obs) and losslessness of restart:
MCView == <<tyme, start, stop, Len(h), h[Len(h)].op>>
RestartLossless == [][\A i \in {Len(h')} : (Len(h') > Len(h) /\ h'[i].op = "restart") => start' = stop]_vars
ExpiredExact == (tyme >= stop) <=> (stop - tyme <= 0)
====
