---- MODULE RealPacing ----
\* Real-time pacing of Doist.do(real=True) against an adversarial wall clock (property C07).
\* mono is true elapsed time (ghost); the wall clock read by the code is wall = mono + off, where off only
\* ever decreases (backward jumps; forward jumps are documented as undetectable and excluded).
\* The code is modelled as written: hio.help.timing.MonoTimer (start/stop/last in wall time, retrograde
\* compensation inside `latest`) and the loop  recur(); while not expired: sleep(remaining); restart().
\* Environment per cycle k: work w (time spent in recur), a backward jump at the end of the work, the overshoot
\* of the first sleep of the cycle and a backward jump during that sleep. Before the run starts the
\* environment may let time pass, step the clock back and change the scheduler's tock.
EXTENDS Integers, Sequences, TLC
CONSTANTS Tocks,      \* possible tock values (construction and "changed before run")
          Works, Overs, Jumps,   \* sets of naturals (Jumps includes 0)
          N,          \* number of cycles observed
          MaxJumps
VARIABLES mono, off, tock, dur, tstart, tstop, tlast, pc, k, starts, runStart, env, njumps, slept,
          ends, ovs, curOv, itock     \* ghosts (itock: tock at construction): end of work per cycle, first-sleep overshoot per cycle
vars == <<mono, off, tock, dur, tstart, tstop, tlast, pc, k, starts, runStart, env, njumps, slept, ends, ovs, curOv, itock>>
Wall == mono + off
Init == /\ mono = 0 /\ off = 10 /\ tock \in Tocks /\ dur = tock
        /\ tstart = 10 /\ tstop = 10 + tock /\ tlast = 10      \* MonoTimer(duration=tock) built at wall 10
        /\ pc = "pre" /\ k = 0 /\ starts = <<>> /\ runStart = 0 /\ env = <<>> /\ njumps = 0 /\ slept = FALSE /\ ends = <<>> /\ ovs = <<>> /\ curOv = 0 /\ itock = tock
\* ---- before do() -------------------------------------------------------------------------------------
PreEnv == /\ pc = "pre"
          /\ \E dt \in Works, j \in Jumps, nt \in Tocks :
               /\ (j > 0 => njumps < MaxJumps)
               /\ mono' = mono + dt /\ off' = off - j /\ tock' = nt
               /\ njumps' = njumps + (IF j > 0 THEN 1 ELSE 0)
               /\ env' = Append(env, [a |-> "pre", dt |-> dt, j |-> j, tock |-> nt])
          /\ pc' = "start"
          /\ UNCHANGED <<dur, tstart, tstop, tlast, k, starts, runStart, slept, ends, ovs, curOv>>
\* do(): self.timer.start(duration=self.tock) -- starts now, measuring from now
Start == /\ pc = "start"
         /\ tstart' = Wall /\ tlast' = Wall /\ dur' = tock /\ tstop' = Wall + tock
         /\ runStart' = mono /\ pc' = "recur"
         /\ UNCHANGED <<mono, off, tock, k, starts, env, njumps, slept, ends, ovs, curOv>>
\* one cycle's recur: observed start, then work and possibly a backward jump
Recur == /\ pc = "recur" /\ k < N
         /\ starts' = Append(starts, mono)
         /\ \E w \in Works, j \in Jumps :
              /\ (j > 0 => njumps < MaxJumps)
              /\ mono' = mono + w /\ off' = off - j /\ njumps' = njumps + (IF j > 0 THEN 1 ELSE 0)
              /\ env' = Append(env, [a |-> "work", dt |-> w, j |-> j, tock |-> tock])
              /\ ends' = Append(ends, mono + w)
         /\ slept' = FALSE /\ curOv' = 0 /\ pc' = "check"
         /\ UNCHANGED <<tock, dur, tstart, tstop, tlast, k, runStart, ovs>>
\* MonoTimer.latest as coded
Delta == Wall - tlast
LStart == IF Delta < 0 THEN tstart + Delta ELSE tstart
LStop == IF Delta < 0 THEN tstop + Delta ELSE tstop
Latest == tlast + Delta
\* `while not self.timer.expired:` -> either sleep(remaining) or fall through to restart()
Check == /\ pc = "check"
         /\ tstart' = LStart /\ tstop' = LStop /\ tlast' = Latest
         /\ IF Latest >= LStop
            THEN /\ pc' = "restart" /\ UNCHANGED <<mono, off, env, njumps, slept, curOv>>
            ELSE \* time.sleep(max(0, remaining)): first sleep of the cycle may overshoot / see a jump
                 /\ \E ov \in (IF slept THEN {0} ELSE Overs), j \in (IF slept THEN {0} ELSE Jumps) :
                      /\ (j > 0 => njumps < MaxJumps)
                      /\ mono' = mono + (LStop - Latest) + ov /\ off' = off - j
                      /\ njumps' = njumps + (IF j > 0 THEN 1 ELSE 0)
                      /\ env' = IF slept THEN env ELSE Append(env, [a |-> "sleep", dt |-> ov, j |-> j, tock |-> tock])
                      /\ curOv' = IF slept THEN curOv ELSE ov
                 /\ slept' = TRUE /\ pc' = "check"
         /\ UNCHANGED <<tock, dur, k, starts, runStart, ends, ovs>>
Restart == /\ pc = "restart"
           /\ tstart' = tstop /\ tstop' = tstop + dur
           /\ k' = k + 1 /\ pc' = "recur" /\ ovs' = Append(ovs, curOv)
           /\ UNCHANGED <<mono, off, tock, dur, tlast, starts, runStart, env, njumps, slept, ends, curOv>>
Next == (PreEnv \/ Start \/ Recur \/ Check \/ Restart) /\ UNCHANGED itock
Spec == Init /\ [][Next]_vars
Terminal == pc = "recur" /\ k = N
\* ---- C07 -----------------------------------------------------------------------------------------------
\* the i-th cycle (0-based) starts no earlier than i tocks of real time after the run started
NeverEarly == \A i \in DOMAIN starts : starts[i] - runStart >= (i - 1) * tock
\* lossless waiting: a cycle starts exactly at its deadline unless the previous cycle's work ran past it (then
\* immediately), plus the overshoot of that cycle's first sleep.  Required for every run whose backward jumps are
\* all fully detectable: a jump is fully detectable when no time passed between the clock read that began the cycle
\* and the jump (work of duration 0), so the next read sees the whole step.  A jump hidden behind elapsed time (after
\* real work, or during a sleep) is partly or wholly invisible to any timer and may delay (never hasten) later cycles.
JumpsInRun == \E i \in DOMAIN env : env[i].a # "pre" /\ env[i].j > 0
HiddenJump == \E i \in DOMAIN env : env[i].a # "pre" /\ env[i].j > 0 /\ ~(env[i].a = "work" /\ env[i].dt = 0)
Max(a, b) == IF a > b THEN a ELSE b
NoDrift == (~HiddenJump) =>
             \A i \in DOMAIN starts : (i > 1 /\ i - 1 \in DOMAIN ovs) =>
                 starts[i] = Max(runStart + (i - 1) * tock, ends[i - 1]) + ovs[i - 1]
====
