---- MODULE RealPacingGen ----
EXTENDS RealPacing, Json
Dump == Terminal => PrintT(<<"BH", ToJson([env |-> env, starts |-> starts, runStart |-> runStart, itock |-> itock, tock0 |-> env[1].tock,
                                           ctock |-> dur, ends |-> ends])>>)
====
