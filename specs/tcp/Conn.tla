---- MODULE Conn ----
\* hio.core.tcp connection endpoints (Client / ClientTls / Remoter / RemoterTls) and a Server pass over its connections
\* (properties C09 and C10).  One action per call of the code with the kernel's answer to each syscall as a parameter:
\*   Tx(c, n)              .tx(data) queues n new bytes
\*   Send(c, out)          .serviceSends(): one send(); out = <<"acc", k>> | <<"block">> | <<"blockw">> | <<"fault", f>>
\*   PeerSend(c, n)        the peer's bytes arrive in the kernel buffer
\*   Recv(c, m, sz, tail)  .serviceReceives(): recv() hands out m bytes in chunks of sz (short reads), then `tail`:
\*                         <<"block">> | <<"eof">> | <<"fault", f>>
\*   Pass(plan)            Server.service(): receives for every connection, then sends for every connection
\* Bytes are numbered in the order they were queued (tx side) or sent by the peer (rx side), so "nothing lost,
\* duplicated or reordered" is equality with an initial segment of the naturals.
EXTENDS Naturals, Sequences, FiniteSets, TLC
CONSTANTS Conns, TxSizes, Accepts, PeerSizes, ChunkSizes, Faults, MaxBytes, MaxOps, Tls, WithPass, Handshakes
VARIABLES cn, raised, h
vars == <<cn, raised, h>>
Iota(a, n) == [i \in 1..n |-> a + i - 1]               \* <<a, a+1, ..., a+n-1>>
New == [q |-> 0, txbs |-> <<>>, wire |-> <<>>, log |-> <<>>, pin |-> 0, kern |-> <<>>, rxbs |-> <<>>, rlog |-> <<>>,
        cutoff |-> FALSE, hs |-> IF Handshakes THEN "pending" ELSE "done"]
Init == cn = [c \in Conns |-> New] /\ raised = FALSE /\ h = <<>>
Obs(x) == [ntx |-> Len(x.txbs), wire |-> Len(x.wire), log |-> Len(x.log), rx |-> Len(x.rxbs), rlog |-> Len(x.rlog),
           cutoff |-> x.cutoff, hs |-> x.hs]
Log(op, c, a) == h' = Append(h, [op |-> op, c |-> c, a |-> a, obs |-> [k \in Conns |-> Obs(cn'[k])], raised |-> raised'])
\* ---- effects on one connection record
\* TLS handshake in progress: do_handshake() completes, wants more I/O, or fails (peer gone): then the connection is
\* aborted (server: dropped from the pending set; client: closed, to be reopened) and never serviced again
HsEff(x, out) == IF x.hs # "pending" THEN x
                 ELSE IF out[1] = "ok" THEN [x EXCEPT !.hs = "done"]
                 ELSE IF out[1] = "fault" THEN [x EXCEPT !.hs = "aborted"]
                 ELSE x
SendEff(x, out) ==
   IF x.hs # "done" THEN x ELSE
   IF x.txbs = <<>> \/ x.cutoff THEN x                                   \* nothing to send / cut off: no syscall
   ELSE IF out[1] = "acc"
        THEN LET k == IF out[2] < Len(x.txbs) THEN out[2] ELSE Len(x.txbs) IN
             [x EXCEPT !.wire = @ \o SubSeq(x.txbs, 1, k), !.log = @ \o SubSeq(x.txbs, 1, k),
                       !.txbs = SubSeq(@, k + 1, Len(@))]
        ELSE IF out[1] = "fault" THEN [x EXCEPT !.cutoff = TRUE]          \* connection-level fault: cut off, nothing sent
        ELSE x                                                            \* would-block: try again later
RecvEff(x, m, tail) ==
   IF x.cutoff \/ x.hs # "done" THEN x
   ELSE LET got == SubSeq(x.kern, 1, m)
            y == [x EXCEPT !.rxbs = @ \o got, !.rlog = @ \o got, !.kern = SubSeq(@, m + 1, Len(@))]
        IN IF tail[1] = "block" THEN y ELSE [y EXCEPT !.cutoff = TRUE]    \* eof or fault after the data: cut off
Room(n) == \A c \in Conns : cn[c].q + n <= MaxBytes /\ cn[c].pin + n <= MaxBytes
Tx(c, n) == /\ cn[c].q + n <= MaxBytes
            /\ cn' = [cn EXCEPT ![c].txbs = @ \o Iota(cn[c].q, n), ![c].q = @ + n]
            /\ UNCHANGED raised /\ Log("tx", c, <<n>>)
Send(c, out) == /\ cn' = [cn EXCEPT ![c] = SendEff(@, out)] /\ UNCHANGED raised /\ Log("send", c, out)
PeerSend(c, n) == /\ cn[c].pin + n <= MaxBytes
                  /\ cn' = [cn EXCEPT ![c].kern = @ \o Iota(cn[c].pin, n), ![c].pin = @ + n]
                  /\ UNCHANGED raised /\ Log("peersend", c, <<n>>)
Recv(c, m, sz, tail) == /\ m <= Len(cn[c].kern)
                        /\ cn' = [cn EXCEPT ![c] = RecvEff(@, m, tail)]
                        /\ UNCHANGED raised /\ Log("recv", c, <<m, sz, tail>>)
\* Server.serviceAxes(): the kernel hands over the waiting connections; gone[c] = the peer of c has reset the connection
\* before the server looked at it (getpeername() fails): that connection is dropped, the others are accepted
Accept(gone) == /\ h = <<>>
                /\ cn' = [c \in Conns |-> IF gone[c] THEN [cn[c] EXCEPT !.hs = "aborted"] ELSE cn[c]]
                /\ UNCHANGED raised /\ Log("accept", 0, gone)
Handshake(c, out) == /\ cn[c].hs = "pending"
                     /\ cn' = [cn EXCEPT ![c] = HsEff(@, out)] /\ UNCHANGED raised /\ Log("handshake", c, out)
\* Server.service(): plan[c] = [hs, m, sz, tail, out]: handshakes of the pending connections, then receives, then sends
Pass(plan) == /\ \A c \in Conns : plan[c].m <= Len(cn[c].kern)
              /\ cn' = [c \in Conns |-> SendEff(RecvEff(HsEff(cn[c], plan[c].hs), plan[c].m, plan[c].tail), plan[c].out)]
              /\ UNCHANGED raised /\ Log("pass", 0, plan)
\* the endpoint's whole service entry point is called once more on a connection that was cut off or whose handshake was
\* aborted (a client tries to connect again, a server has dropped it): nothing of this connection moves, nothing is raised
Again(c) == /\ (cn[c].cutoff \/ cn[c].hs = "aborted") /\ h # <<>> /\ h[Len(h)].op # "again"
            /\ UNCHANGED <<cn, raised>> /\ Log("again", c, <<>>)
Blocks == IF Tls THEN {<<"block">>, <<"blockw">>} ELSE {<<"block">>}
Outs == {<<"acc", k>> : k \in Accepts} \cup Blocks \cup {<<"fault", f>> : f \in Faults}
Tails == {<<"block">>, <<"eof">>} \cup {<<"fault", f>> : f \in Faults}
HsOuts == {<<"ok">>} \cup Blocks \cup {<<"fault", f>> : f \in Faults}
Plans == [Conns -> [hs : IF Handshakes THEN HsOuts ELSE {<<"ok">>}, m : 0..MaxBytes, sz : ChunkSizes, tail : Tails, out : Outs]]
Next == /\ Len(h) < MaxOps
        /\ \/ \E c \in Conns :
                \/ \E n \in TxSizes : Tx(c, n)
                \/ \E n \in PeerSizes : PeerSend(c, n)
                \/ (~WithPass /\ \E out \in Outs : Send(c, out))
                \/ (~WithPass /\ \E out \in HsOuts : Handshake(c, out))
                \/ (~WithPass /\ Again(c))
                \/ (~WithPass /\ \E m \in 0..Len(cn[c].kern), sz \in ChunkSizes, tail \in Tails : Recv(c, m, sz, tail))
           \/ (WithPass /\ \E plan \in Plans : Pass(plan))
           \/ (WithPass /\ \E gone \in [Conns -> BOOLEAN] : Accept(gone))
Spec == Init /\ [][Next]_vars
-----------------------------------------------------------------------------
MCView == <<cn, raised, Len(h)>>
\* C09
Conservation == \A c \in Conns : cn[c].wire \o cn[c].txbs = Iota(0, cn[c].q)
LogExact == \A c \in Conns : cn[c].log = cn[c].wire /\ cn[c].rlog = cn[c].rxbs
RxConservation == \A c \in Conns : cn[c].rxbs \o cn[c].kern = Iota(0, cn[c].pin)
SendProgress == [][\A c \in Conns : (Len(h') > Len(h) /\ h'[Len(h')].op = "send" /\ h'[Len(h')].c = c
                                     /\ h'[Len(h')].a[1] = "acc" /\ cn[c].txbs # <<>> /\ ~cn[c].cutoff /\ cn[c].hs = "done")
                                    => Len(cn'[c].txbs) < Len(cn[c].txbs)]_vars
\* C10
NeverRaised == raised = FALSE
FaultCutsOff == [][\A c \in Conns : (Len(h') > Len(h) /\ h'[Len(h')].op \in {"send", "recv"} /\ h'[Len(h')].c = c
                                     /\ ~cn[c].cutoff /\ cn[c].hs = "done" /\ ( (h'[Len(h')].op = "send" /\ h'[Len(h')].a[1] = "fault" /\ cn[c].txbs # <<>>)
                                                        \/ (h'[Len(h')].op = "recv" /\ h'[Len(h')].a[3][1] \in {"fault", "eof"}) ))
                                    => cn'[c].cutoff]_vars
\* an aborted handshake is final: no byte of that connection ever moves
AbortedStays == [][\A c \in Conns : cn[c].hs = "aborted" =>
                      (cn'[c].hs = "aborted" /\ cn'[c].wire = cn[c].wire /\ cn'[c].rxbs = cn[c].rxbs)]_vars
\* a connection's bytes never depend on what happens on another connection
SiblingUntouched == [][\A c \in Conns : (Len(h') > Len(h) /\ h'[Len(h')].op # "pass" /\ h'[Len(h')].c # c) => cn'[c] = cn[c]]_vars
====
