---- MODULE ConnGen ----
EXTENDS Conn, Json
Dump == (Len(h) = MaxOps) => PrintT(<<"BH", ToJson(h)>>)
====
