---- MODULE Sockets ----
\* Socket ownership of hio.core.tcp Server / ServerTls and Client (property C11).
\* Every socket the endpoint creates or accepts gets a fresh id; `open` is the set of ids not yet closed.  The server
\* references sockets through its listen slot, `cx` (TLS handshakes in progress, by peer address) and `ix` (serviceable
\* connections, by peer address).  One action per public call; ServiceConnects carries the kernel's answers (who is
\* waiting in the accept queue, outcome of each pending handshake).
EXTENDS Naturals, Sequences, FiniteSets, TLC
CONSTANTS Peers,        \* peer addresses (a peer may connect again from the same address)
          Tls,          \* BOOLEAN
          MaxSocks, MaxOps,
          ClientOps     \* BOOLEAN: include the client's actions (FALSE: server histories only, which can then be longer)
VARIABLES next, open, listen, backlog, cx, ix, copen, cconn, h
vars == <<next, open, listen, backlog, cx, ix, copen, cconn, h>>
None == 0
Init == /\ next = 1 /\ open = {} /\ listen = None /\ backlog = <<>> /\ cx = [p \in Peers |-> None] /\ ix = [p \in Peers |-> None]
        /\ copen = None /\ cconn = FALSE /\ h = <<>>
Log(op, a) == h' = Append(h, [op |-> op, a |-> a, open |-> open', listen |-> listen', cx |-> cx', ix |-> ix', c |-> copen'])
Held == {listen} \cup {cx[p] : p \in Peers} \cup {ix[p] : p \in Peers}
\* ---- server
Open ==            \* Server.reopen(): close() - the listen socket and every connection - then a new listen socket
  /\ next <= MaxSocks
  /\ listen' = next /\ next' = next + 1 /\ open' = (open \ Held) \cup {next}
  /\ backlog' = <<>>                                   \* what waited on the old listen socket is gone with it
  /\ cx' = [p \in Peers |-> None]                      \* a closed connection cannot finish its handshake: forgotten
  /\ UNCHANGED <<ix, copen, cconn>> /\ Log("open", <<>>)
OpenFail ==        \* Server.reopen() when the address cannot be bound (in use): everything is closed, a listen socket is made,
                   \* bind() fails, that socket is closed again: the server is left closed, holding nothing
  /\ next <= MaxSocks
  /\ listen' = None /\ next' = next + 1 /\ open' = open \ Held
  /\ backlog' = <<>> /\ cx' = [p \in Peers |-> None]
  /\ UNCHANGED <<ix, copen, cconn>> /\ Log("openfail", <<>>)
PeerConnects(p) == \* a peer's connection is completed by the kernel and waits in the accept queue (socket made at accept)
  /\ listen # None /\ Len(backlog) < 2
  /\ backlog' = Append(backlog, p) /\ UNCHANGED <<next, open, listen, cx, ix, copen, cconn>> /\ Log("peer", <<p>>)
\* accept everything waiting; a new connection from an address that is already held replaces the held one, which is closed
RECURSIVE AcceptAll(_, _, _, _, _)
AcceptAll(q, n, o, cxx, ixx) ==
  IF q = <<>> THEN [n |-> n, o |-> o, cx |-> cxx, ix |-> ixx]
  ELSE LET p == Head(q) IN
       IF Tls THEN AcceptAll(Tail(q), n + 1, (o \ {cxx[p]}) \cup {n}, [cxx EXCEPT ![p] = n], ixx)
       ELSE AcceptAll(Tail(q), n + 1, (o \ {ixx[p]}) \cup {n}, cxx, [ixx EXCEPT ![p] = n])
\* outcome of one handshake attempt per pending connection: "ok" | "block" | "abort"
RECURSIVE Shake(_, _, _, _, _)
Shake(ps, hs, o, cxx, ixx) ==
  IF ps = {} THEN [o |-> o, cx |-> cxx, ix |-> ixx]
  ELSE LET p == CHOOSE p \in ps : TRUE  r == ps \ {p} IN
       IF cxx[p] = None \/ hs[p] = "block" THEN Shake(r, hs, o, cxx, ixx)
       ELSE IF hs[p] = "ok" THEN Shake(r, hs, o \ {ixx[p]}, [cxx EXCEPT ![p] = None], [ixx EXCEPT ![p] = cxx[p]])
       ELSE Shake(r, hs, o \ {cxx[p]}, [cxx EXCEPT ![p] = None], ixx)
ServiceConnects(hs) ==
  /\ listen # None /\ next + Len(backlog) <= MaxSocks + 1
  /\ LET a == AcceptAll(backlog, next, open, cx, ix)
         s == IF Tls THEN Shake(Peers, hs, a.o, a.cx, a.ix) ELSE [o |-> a.o, cx |-> a.cx, ix |-> a.ix] IN
     /\ next' = a.n /\ open' = s.o /\ cx' = s.cx /\ ix' = s.ix
  /\ backlog' = <<>> /\ UNCHANGED <<listen, copen, cconn>> /\ Log("service", hs)
Remove(p) ==       \* Server.removeIx(ca): the application drops a connection (e.g. after cutoff), closing it
  /\ ix[p] # None
  /\ open' = open \ {ix[p]} /\ ix' = [ix EXCEPT ![p] = None]
  /\ UNCHANGED <<next, listen, backlog, cx, copen, cconn>> /\ Log("remove", <<p>>)
Close ==           \* Server.close(): the listen socket and every accepted connection socket are closed
  /\ open' = open \ Held
  /\ listen' = None /\ backlog' = <<>> /\ cx' = [p \in Peers |-> None]
  /\ UNCHANGED <<next, ix, copen, cconn>> /\ Log("close", <<>>)
\* ---- client
COpen ==           \* Client.reopen(): close the current socket if any, make a new one
  /\ next <= MaxSocks
  /\ copen' = next /\ next' = next + 1 /\ open' = (open \ {copen}) \cup {next} /\ cconn' = FALSE
  /\ UNCHANGED <<listen, backlog, cx, ix>> /\ Log("copen", <<>>)
CConnect(res) ==   \* Client.serviceConnect(): connect_ex answers "ok" | "wait" | "refused" (refused: reopen with a new socket)
  /\ next <= MaxSocks
  /\ IF copen = None \/ res = "refused"
     THEN /\ copen' = next /\ next' = next + 1 /\ open' = (open \ {copen}) \cup {next}
          /\ cconn' = (copen = None /\ res = "ok")
     ELSE /\ UNCHANGED <<copen, next, open>> /\ cconn' = (cconn \/ res = "ok")
  /\ UNCHANGED <<listen, backlog, cx, ix>> /\ Log("cconnect", <<res>>)
CTimeout ==         \* Client.serviceConnect() of a reconnectable client whose retry tymer has expired while the connection attempt is
                   \* still in progress: the socket is reopened (old one closed, new one made) and the attempt starts again
  /\ next <= MaxSocks /\ copen # None /\ ~cconn
  /\ copen' = next /\ next' = next + 1 /\ open' = (open \ {copen}) \cup {next} /\ cconn' = FALSE
  /\ UNCHANGED <<listen, backlog, cx, ix>> /\ Log("ctimeout", <<>>)
CClose ==
  /\ open' = open \ {copen} /\ copen' = None /\ cconn' = FALSE
  /\ UNCHANGED <<next, listen, backlog, cx, ix>> /\ Log("cclose", <<>>)
HsChoices == [Peers -> {"ok", "block", "abort"}]
Next == /\ Len(h) < MaxOps
        /\ \/ Open \/ OpenFail \/ Close \/ (ClientOps /\ (COpen \/ CClose \/ CTimeout))
           \/ \E p \in Peers : PeerConnects(p) \/ Remove(p)
           \/ \E hs \in (IF Tls THEN HsChoices ELSE {[p \in Peers |-> "ok"]}) : ServiceConnects(hs)
           \/ (ClientOps /\ \E r \in {"ok", "wait", "refused"} : CConnect(r))
Spec == Init /\ [][Next]_vars
-----------------------------------------------------------------------------
MCView == <<next, open, listen, backlog, cx, ix, copen, cconn, Len(h)>>
\* C11: nothing the endpoint opened stays open without the endpoint holding it, so close() can and does release it
NoOrphan == open \subseteq (Held \cup {copen}) \ {None}
ClosedIsClosed == (h # <<>> /\ h[Len(h)].op \in {"close", "openfail"}) => open \subseteq {copen}
ClientSingle == Cardinality(open \ (Held \ {None})) <= 1 /\ (copen = None => open \subseteq Held)
====
