---- MODULE ConnTrace ----
\* C->S: executions of a real tcp Server / ServerTls over scripted sockets, one event per call (tx, peersend, pass =
\* Server.service() with the kernel's answers of that pass as the plan), logged after the call returned or raised, with
\* the observable state of every connection.  A trace is accepted iff every event is the model's action with exactly
\* the logged observations - in particular `raised` stays FALSE.
EXTENDS Conn, Json, IOUtils
VARIABLES tid, l
Traces == JsonDeserialize(IOEnv.TRACE_FILE)
tvars == <<vars, tid, l>>
TInit == Init /\ tid \in 1..Len(Traces) /\ l = 1
Ev == Traces[tid][l]
Same(c) == LET o == Ev.obs[c]  x == cn'[c] IN
           /\ o.hs = x.hs
           /\ o.wire = Len(x.wire)
           /\ (x.hs # "aborted") => (o.ntx = Len(x.txbs) /\ o.rx = Len(x.rxbs) /\ o.cutoff = x.cutoff)
TStep(A) == A /\ Ev.raised = FALSE /\ (\A c \in Conns : Same(c)) /\ l' = l + 1 /\ UNCHANGED tid
PlanOf(a) == [c \in Conns |-> a[c]]
TNext == /\ l <= Len(Traces[tid])
         /\ \/ (Ev.op = "tx" /\ TStep(Tx(Ev.c, Ev.a[1])))
            \/ (Ev.op = "peersend" /\ TStep(PeerSend(Ev.c, Ev.a[1])))
            \/ (Ev.op = "pass" /\ TStep(Pass(PlanOf(Ev.a))))
            \/ (Ev.op = "accept" /\ TStep(Accept([c \in Conns |-> Ev.a[c]])))
TSpec == TInit /\ [][TNext]_tvars
Progress == PrintT(<<"AT", tid, l>>)
====
