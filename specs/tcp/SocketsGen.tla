---- MODULE SocketsGen ----
EXTENDS Sockets, Json
Dump == (Len(h) = MaxOps) => PrintT(<<"BH", ToJson(h)>>)
====
