---- MODULE Segment ----
\* Reassembly of memos from grams in hio.core.memo.Memoer (property C20), as the receiver is coded:
\*   rxgs[m]   gram numbers stored for memo m (first copy only), counts[m] the gram count (known from the zeroth gram),
\*   vids[m]   whether the signer is known (from the zeroth gram; a signed non-zeroth gram can only be verified then).
\* The network delivers any gram of any memo at any time: reordered, duplicated, interleaved.  After each delivery the
\* receiver fuses every memo whose grams are complete, delivers it and forgets everything about it.
\* Ghost variables record what the two listed findings need: whether a signed non-zeroth gram arrived before its zeroth
\* gram (it is dropped), and whether grams of an already delivered memo arrived again (they start a second copy).
EXTENDS Naturals, Sequences, FiniteSets, TLC
CONSTANTS Count,          \* memo -> number of grams, e.g. [a |-> 3, b |-> 2]
          Signed,         \* BOOLEAN: grams carry signatures (AuthMemoer)
          MaxDeliveries
VARIABLES rxgs, counts, vids, delivered, seen, early, again, h
vars == <<rxgs, counts, vids, delivered, seen, early, again, h>>
Memos == DOMAIN Count
Grams(m) == 0..(Count[m] - 1)
Init == /\ rxgs = [m \in Memos |-> {}] /\ counts = [m \in Memos |-> 0] /\ vids = [m \in Memos |-> FALSE]
        /\ delivered = <<>> /\ seen = [m \in Memos |-> {}] /\ early = [m \in Memos |-> FALSE] /\ again = [m \in Memos |-> FALSE]
        /\ h = <<>>
Times(m) == Cardinality({i \in DOMAIN delivered : delivered[i] = m})
Deliver(m, gn) ==
  /\ Len(h) < MaxDeliveries
  /\ LET dropped == Signed /\ gn > 0 /\ ~vids[m]                 \* cannot be verified yet: dropped
         r1 == IF dropped THEN rxgs[m] ELSE rxgs[m] \cup {gn}
         c1 == IF gn = 0 /\ counts[m] = 0 THEN Count[m] ELSE counts[m]
         v1 == vids[m] \/ gn = 0
         complete == c1 > 0 /\ Cardinality(r1) >= c1
     IN /\ rxgs' = [rxgs EXCEPT ![m] = IF complete THEN {} ELSE r1]
        /\ counts' = [counts EXCEPT ![m] = IF complete THEN 0 ELSE c1]
        /\ vids' = [vids EXCEPT ![m] = IF complete THEN FALSE ELSE v1]
        /\ delivered' = IF complete THEN Append(delivered, m) ELSE delivered
        /\ early' = [early EXCEPT ![m] = @ \/ dropped]
        /\ again' = [again EXCEPT ![m] = @ \/ Times(m) > 0]
        /\ seen' = [seen EXCEPT ![m] = @ \cup {gn}]
  /\ h' = Append(h, [m |-> m, gn |-> gn, delivered |-> delivered'])
Next == \E m \in Memos, gn \in 0..3 : gn \in Grams(m) /\ Deliver(m, gn)
Spec == Init /\ [][Next]_vars
-----------------------------------------------------------------------------
MCView == <<rxgs, counts, vids, delivered, seen, early, again, Len(h)>>
\* C20
NoPartialDelivery == \A m \in Memos : Times(m) > 0 => seen[m] = Grams(m)
AtMostOnce == \A m \in Memos : Times(m) <= 1
DeliveredWhenComplete == \A m \in Memos : (seen[m] = Grams(m)) => Times(m) >= 1
\* the listed findings, as predicates over the history
KnownRedelivery(m) == again[m]          \* grams of m arrived after m had been delivered
KnownSignedReorder(m) == early[m]       \* a signed non-zeroth gram of m arrived before the zeroth gram
AtMostOnceModuloFinding == \A m \in Memos : Times(m) <= 1 \/ KnownRedelivery(m)
DeliveredModuloFinding == \A m \in Memos : (seen[m] = Grams(m)) => (Times(m) >= 1 \/ KnownSignedReorder(m))
====
