---- MODULE MCSegment ----
EXTENDS SegmentGen
C32 == [a |-> 3, b |-> 2]
C21 == [a |-> 2, b |-> 1]
C43 == [a |-> 4, b |-> 3, c |-> 1]
====
