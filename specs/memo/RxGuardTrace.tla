---- MODULE RxGuardTrace ----
EXTENDS RxGuard, Json, IOUtils
VARIABLES tid, l
Traces == JsonDeserialize(IOEnv.TRACE_FILE)
tvars == <<vars, tid, l>>
TInit == Init /\ tid \in 1..Len(Traces) /\ l = 1
Ev == Traces[tid][l]
TNext == l <= Len(Traces[tid]) /\ Receive(Ev.cls, Ev.out) /\ l' = l + 1 /\ UNCHANGED tid
TSpec == TInit /\ [][TNext]_tvars
Progress == PrintT(<<"AT", tid, l>>)
====
