---- MODULE TxPressure ----
\* Transmit side of hio.core.memo.Memoer under transport back pressure (property C21).
\* Grams are queued in .txgs as (gram, dst); .txbs holds the gram in flight: (remaining bytes, dst), dst = None when
\* there is none.  One action per call of serviceTxGramsOnce() with the transport's answer to the one send() it makes:
\* accept k bytes of what was offered (0 = would block), or the destination is unreachable (the gram is dropped).
\* Bytes of gram g are numbered <<g, 1>> .. <<g, len>>; wire[d] is what the transport has accepted for destination d.
EXTENDS Naturals, Sequences, FiniteSets, TLC
CONSTANTS Dsts, Lens, MaxGrams, MaxOps
VARIABLES txgs, txbs, wire, dropped, nextg, h
vars == <<txgs, txbs, wire, dropped, nextg, h>>
None == [g |-> 0, dst |-> "none", from |-> 0, len |-> 0]
Init == /\ txgs = <<>> /\ txbs = None /\ wire = [d \in Dsts |-> <<>>] /\ dropped = {} /\ nextg = 1 /\ h = <<>>
Log(op, a) == h' = Append(h, [op |-> op, a |-> a, ntxgs |-> Len(txgs'), rem |-> txbs'.len - txbs'.from,
                              wire |-> [d \in Dsts |-> Len(wire'[d])]])
Queue(d, n) == /\ nextg <= MaxGrams
               /\ txgs' = Append(txgs, [g |-> nextg, dst |-> d, from |-> 0, len |-> n]) /\ nextg' = nextg + 1
               /\ UNCHANGED <<txbs, wire, dropped>> /\ Log("queue", <<d, n>>)
\* the transmit state as one record, so that one call that makes several sends (the greedy service) composes single sends
Cur == [txgs |-> txgs, txbs |-> txbs, wire |-> wire, dropped |-> dropped]
PendingIn(st) == st.txbs # None \/ st.txgs # <<>>
Pending == PendingIn(Cur)
\* one send(): out = <<"acc", k>> (k capped by what is left) | <<"unreachable">>; more: the gram went out completely or was
\* dropped, a greedy caller may go on
Apply(st, out) ==
  LET c == IF st.txbs # None THEN st.txbs ELSE Head(st.txgs)
      rest == IF st.txbs # None THEN st.txgs ELSE Tail(st.txgs)
      left == c.len - c.from IN
  IF out[1] = "unreachable"
  THEN [txgs |-> rest, txbs |-> None, wire |-> st.wire, dropped |-> st.dropped \cup {c.g}, more |-> TRUE]
  ELSE LET k == IF out[2] < left THEN out[2] ELSE left IN
       [txgs |-> rest, txbs |-> IF k = left THEN None ELSE [c EXCEPT !.from = @ + k],
        wire |-> [st.wire EXCEPT ![c.dst] = @ \o [i \in 1..k |-> <<c.g, c.from + i>>]], dropped |-> st.dropped, more |-> (k = left)]
Become(r) == txgs' = r.txgs /\ txbs' = r.txbs /\ wire' = r.wire /\ dropped' = r.dropped
\* serviceTxGramsOnce(): one send
Service(out) == /\ Pending /\ Become(Apply(Cur, out)) /\ UNCHANGED nextg /\ Log("service", out)
\* serviceTxGrams(): sends while there is something to send and the last send went out completely; the transport answers
\* the first sends as planned and accepts everything after that
RECURSIVE Run(_, _)
Run(st, plan) == IF ~PendingIn(st) THEN st
                 ELSE LET r == Apply(st, IF plan = <<>> THEN <<"acc", 99>> ELSE Head(plan)) IN
                      IF r.more THEN Run(r, IF plan = <<>> THEN plan ELSE Tail(plan)) ELSE r
Greedy(plan) == /\ Pending /\ Become(Run(Cur, plan)) /\ UNCHANGED nextg /\ Log("greedy", plan)
\* the transport is closed and opened again between two calls: nothing queued or in flight is forgotten
Bounce == /\ UNCHANGED <<txgs, txbs, wire, dropped, nextg>> /\ Log("bounce", <<>>)
Outs == {<<"acc", k>> : k \in 0..3} \cup {<<"acc", 99>>, <<"unreachable">>}
Next == /\ Len(h) < MaxOps
        /\ \/ \E d \in Dsts, n \in Lens : Queue(d, n)
           \/ \E out \in Outs : Service(out)
           \/ \E o1 \in Outs : Greedy(<<o1>>) \/ \E o2 \in Outs : Greedy(<<o1, o2>>)
           \/ (h # <<>> /\ h[Len(h)].op # "bounce" /\ Bounce)
Spec == Init /\ [][Next]_vars
-----------------------------------------------------------------------------
MCView == <<txgs, txbs, wire, dropped, nextg, Len(h)>>
\* C21: per destination the wire holds, in queue order, every byte of every gram that was not dropped - whole grams,
\* then a prefix of the gram in flight - and nothing else
InOrder(q) == \A i, j \in DOMAIN q : i < j => (q[i][1] < q[j][1] \/ (q[i][1] = q[j][1] /\ q[i][2] < q[j][2]))
NoGap(q) == \A i \in DOMAIN q : q[i][2] = 1 \/ (i > 1 /\ q[i - 1] = <<q[i][1], q[i][2] - 1>>)
WireExact == \A d \in Dsts : InOrder(wire[d]) /\ NoGap(wire[d])
\* a gram that is neither pending nor dropped is completely on the wire (nothing is lost)
Sent(g, n, d) == \A i \in 1..n : \E p \in DOMAIN wire[d] : wire[d][p] = <<g, i>>
NoLoss == \A k \in DOMAIN h : h[k].op = "queue" =>
             LET g == Cardinality({j \in 1..k : h[j].op = "queue"})  d == h[k].a[1]  n == h[k].a[2] IN
             \/ g \in dropped
             \/ \E i \in DOMAIN txgs : txgs[i].g = g
             \/ txbs.g = g
             \/ Sent(g, n, d)
\* a gram in flight is finished before the next gram of any destination is started
OneInFlight == txbs # None => \A i \in DOMAIN txgs : txgs[i].g > txbs.g
====
