---- MODULE SegmentGen ----
EXTENDS Segment, Json
Dump == (Len(h) = MaxDeliveries) => PrintT(<<"BH", ToJson([h |-> h, early |-> early, again |-> again])>>)
====
