---- MODULE TxPressureGen ----
EXTENDS TxPressure, Json
Dump == (Len(h) = MaxOps) => PrintT(<<"BH", ToJson(h)>>)
====
