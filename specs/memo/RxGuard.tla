---- MODULE RxGuard ----
\* What the receive side of hio.core.memo.Memoer may do with an arbitrary datagram (property C22).
\* A datagram is "intact" (a gram as rent by a real sender, signed when signatures are required) or "altered" (truncated,
\* a byte changed, a header field replaced, random bytes).  Servicing never raises.  An intact gram is accepted (stored,
\* or it completes its memo).  An altered datagram is dropped, or stored - but when signed grams are required nothing
\* altered is ever part of a delivered memo: every delivered memo is one of the memos really signed by the signer.
EXTENDS Naturals, Sequences, FiniteSets, TLC
CONSTANTS Authic, MaxSteps
VARIABLES raised, delivered, h
vars == <<raised, delivered, h>>
Outcomes == {"dropped", "stored", "delivered-original", "delivered-altered"}
Init == raised = FALSE /\ delivered = <<>> /\ h = <<>>
\* "unverifiable": a gram exactly as a real signer rent it, but the receiver has no current key for the claimed signer (a
\* transferable signer id that is not in its keep): with required signatures nothing of it is ever delivered, altered or not
Allowed(cls) == IF cls = "intact" THEN {"stored", "delivered-original"}
                ELSE IF cls = "unverifiable" THEN (IF Authic THEN {"dropped", "stored"} ELSE Outcomes)
                ELSE IF Authic THEN {"dropped", "stored", "delivered-original"}      \* "stored": e.g. an unknown memo id, never completes
                ELSE Outcomes                                                       \* unsigned content cannot be told from genuine
Receive(cls, out) == /\ Len(h) < MaxSteps /\ out \in Allowed(cls)
                     /\ delivered' = IF out \in {"delivered-original", "delivered-altered"} THEN Append(delivered, out) ELSE delivered
                     /\ h' = Append(h, [cls |-> cls, out |-> out]) /\ UNCHANGED raised
Next == \E cls \in {"intact", "altered", "unverifiable"}, out \in Outcomes : Receive(cls, out)
Spec == Init /\ [][Next]_vars
NeverRaised == raised = FALSE
AuthenticOnly == Authic => /\ \A i \in DOMAIN delivered : delivered[i] = "delivered-original"
                           /\ \A i \in DOMAIN h : h[i].cls = "unverifiable" => h[i].out \notin {"delivered-original", "delivered-altered"}
====
