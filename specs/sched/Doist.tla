---- MODULE Doist ----
\* hio.base.doing: root scheduler Doist and nested DoDoers, in virtual (non real-time) mode.
\*
\* Structure follows the implementation, one action per linearization point:
\*   - Doist.enter / DoDoer.enter : EnterLeaf, EnterDD, EnterPop (explicit frame stack `ent`)
\*   - Doist.recur / DoDoer.recur : StartCycle (append marker), NotDue (re-append), Descend (send into
\*     a DoDoer = nested synchronous cycle, explicit call `stack`), leaf outcomes Yield / Return / Raise /
\*     Interrupt / Extend / Remove, EndCycleDD (marker popped in a DoDoer), EndCycleRoot (marker popped
\*     in the Doist: tick, then all-done / limit / next cycle)
\*   - Doist.exit / DoDoer.exit   : CloseSeq (forced close of a deque) used by Finish (limit), by the
\*     exception unwinding of Raise / Interrupt / a failing enter, and by Remove.
\* Every scheduler owns a deque `deeds[s]` of [d, rt] deeds plus the run-through-once marker M, exactly
\* as coded. Time is integer quanta (the adapter scales by an exactly representable float).
\*
\* `log` is the observable history: one record per life-cycle callback of a doer (enter, recur with the
\* tyme it observed and what it did, clean, cease, abort, exit). It is compared verbatim with the real
\* code (spec->code) and hidden from exhaustive model checking by VIEW MCView; the property monitors
\* (`life`, `badSweep`, ...) are ordinary state.
EXTENDS Naturals, Sequences, FiniteSets, TLC

CONSTANTS
  Kids,      \* [Scheds -> Seq(Ids)]: initial children of the root "R" and of every DoDoer
  Kind,      \* [Ids -> {"leaf","dd"}]
  Always,    \* [dd ids -> BOOLEAN]
  OwnTock,   \* [dd ids -> Nat] the DoDoer's own tock (0: runs in every cycle of its parent)
  ExtSeqs,   \* [Scheds -> SUBSET Seq(Ids)] argument lists a doer under s may pass to s.extend()
  RemSeqs,   \* [Scheds -> SUBSET Seq(Ids)] argument lists a doer under s may pass to s.remove()
  Tock, T0, Limit,     \* root tock, start tyme, limit (0 = no limit), integer quanta
  MaxSteps,  \* a leaf returns or faults at the latest in its MaxSteps-th recur
  Tocks,     \* yield alphabet (0 stands for both 0.0 and None)
  Rets,      \* subset of {"T","F","N"}: values a leaf may return (N = None)
  EnterOuts, \* subset of {"ok","x","r"}: outcomes of a leaf's enter (ok, raise, return before first yield)
  Faults,    \* subset of {"x","k"}: raise an Exception / a KeyboardInterrupt inside recur
  MaxFaults, MaxOps,   \* budget of faults and of extend/remove calls per behaviour
  Follow     \* FALSE: leaf outcomes are free and recorded in `script`; TRUE: they are read from `given`

VARIABLES tyme, deeds, doers, stack, cur, ent, phase, done, ddone, steps, log, life, entSeq,
          nfaults, nops, badSweep, extended, removed, script, given,
          ranThis,    \* ghost: leaves that ran in the current root cycle (for the refinement of FlatSched)
          lastFin,    \* ghost: tyme of the cycle in which a doer last completed by itself (C05)
          addedThis, owed, selfRem, c06bad   \* ghosts for C06: doers added in this / the previous root cycle,
                      \* doers that removed themselves, and the set of C06 clauses seen violated

vars == <<tyme, deeds, doers, stack, cur, ent, phase, done, ddone, steps, log, life, entSeq,
          nfaults, nops, badSweep, extended, removed, script, given, ranThis,
          lastFin, addedThis, owed, selfRem, c06bad>>
MCView == <<tyme, deeds, doers, stack, cur, ent, phase, done, ddone, steps, life, entSeq,
            nfaults, nops, badSweep, extended, removed, ranThis, lastFin, addedThis, owed, selfRem, c06bad>>

Root == "R"
Scheds == DOMAIN Kids
Ids == DOMAIN Kind
\* a deed: doer, retyme, asap. asap = TRUE: "run at the next recur of my scheduler, whenever that is" (a doer
\* under a tock-0 DoDoer that yielded 0/None; the code stores retyme None); rt is then irrelevant and kept 0.
M == [d |-> "M", rt |-> 0, asap |-> FALSE]
Deed(d, rt) == [d |-> d, rt |-> rt, asap |-> FALSE]
STock(s) == IF s = Root THEN Tock ELSE OwnTock[s]
Eff(h) == IF h.asap THEN tyme ELSE h.rt      \* the due tyme a positive tock is added to
AsapDeed(s, d) == IF s = Root THEN Deed(d, tyme + Tock)
                  ELSE IF OwnTock[s] = 0 THEN [d |-> d, rt |-> 0, asap |-> TRUE]
                  ELSE Deed(d, tyme + OwnTock[s])
YDeed(s, h, t) == IF t = 0 THEN AsapDeed(s, h.d) ELSE Deed(h.d, Eff(h) + t)
Mem(q, x) == \E i \in DOMAIN q : q[i] = x
Pos(q, x) == CHOOSE i \in DOMAIN q : q[i] = x
Last(q) == q[Len(q)]
Front(q) == SubSeq(q, 1, Len(q) - 1)
RECURSIVE Rev(_)
Rev(q) == IF q = <<>> THEN <<>> ELSE <<q[Len(q)]>> \o Rev(Front(q))
RECURSIVE Filt(_, _)    \* the deeds of q whose doer is in set X (the marker's "doer" is "M")
Filt(q, X) == IF q = <<>> THEN <<>>
              ELSE (IF q[1].d \in X THEN <<q[1]>> ELSE <<>>) \o Filt(Tail(q), X)
RECURSIVE Drop(_, _)
Drop(q, X) == IF q = <<>> THEN <<>>
              ELSE (IF q[1].d \in X THEN <<>> ELSE <<q[1]>>) \o Drop(Tail(q), X)
RECURSIVE Uniq(_)       \* first occurrences, order kept
Uniq(q) == IF q = <<>> THEN <<>>
           ELSE LET f == Uniq(Front(q)) IN IF Mem(f, Last(q)) THEN f ELSE Append(f, Last(q))
RECURSIVE SeqMinus(_, _)
SeqMinus(q, X) == IF q = <<>> THEN <<>>
                  ELSE (IF q[1] \in X THEN <<>> ELSE <<q[1]>>) \o SeqMinus(Tail(q), X)
Range(q) == {q[i] : i \in DOMAIN q}
AliveIds(dd) == UNION {{dd[s][i].d : i \in DOMAIN dd[s]} : s \in Scheds}

\* ---- observable events ------------------------------------------------------------------------------
Ev(k, d, t, o, a) == [k |-> k, d |-> d, t |-> t, o |-> o, a |-> a]
E(k, d) == Ev(k, d, 0, "", <<>>)
Recur(d, o, a) == Ev("recur", d, tyme, o, a)

\* life-cycle monitor (C01): none -> in -> {clean, cease, abort} -> out ; anything else -> bad
LifeStep(st, k) ==
  IF st = "bad" THEN "bad"
  ELSE IF k = "enter" THEN (IF st = "none" THEN "in" ELSE "bad")
  ELSE IF k = "recur" THEN (IF st = "in" THEN "in" ELSE "bad")
  ELSE IF k \in {"clean", "cease", "abort"} THEN (IF st = "in" THEN k ELSE "bad")
  ELSE IF k = "exit" THEN (IF st \in {"clean", "cease", "abort"} THEN "out"
                           ELSE IF st = "in" THEN "noend"     \* exit without clean/cease/abort
                           ELSE "bad")
  ELSE "bad"
RECURSIVE LifeFold(_, _)
LifeFold(lf, evs) == IF evs = <<>> THEN lf
                     ELSE LET e == Head(evs) IN
                          IF e.k = "members" THEN LifeFold(lf, Tail(evs))   \* membership snapshot, not a life-cycle event
                          ELSE LifeFold([lf EXCEPT ![e.d] = IF @ = "noend" THEN "bad" ELSE LifeStep(@, e.k)], Tail(evs))
Emit(evs) == log' = log \o evs /\ life' = LifeFold(life, evs)

\* ---- forced close of a deque (Doist.exit / DoDoer.exit) -----------------------------------------------
\* Deeds left of the marker have not yet run in the interrupted cycle and were entered after the ones
\* right of it: the close order is reverse(right part) after reverse(left part), i.e. reverse of Rot(q).
HasM(q) == \E i \in DOMAIN q : q[i] = M
Rot(q) == IF HasM(q) THEN LET i == Pos(q, M) IN SubSeq(q, i + 1, Len(q)) \o SubSeq(q, 1, i - 1) ELSE q
CloseOrder(q) == Rev(Rot(q))
RECURSIVE CloseList(_, _)     \* events of closing the deeds of sequence q in that order; dd = deeds function
CloseList(q, dd) ==
  IF q = <<>> THEN <<>>
  ELSE LET x == q[1].d IN
       (IF Kind[x] = "dd"
        THEN <<E("cease", x)>> \o CloseList(CloseOrder(dd[x]), dd) \o <<E("exit", x)>>
        ELSE <<E("cease", x), E("exit", x)>>) \o CloseList(Tail(q), dd)
CloseSeq(q, dd) == CloseList(CloseOrder(q), dd)
\* C02 monitor: a sweep over deque q is well ordered iff enter positions strictly decrease
Ids_(q) == [i \in DOMAIN q |-> q[i].d]
Decreasing(ids, es) == \A i, j \in DOMAIN ids : i < j => Pos(es, ids[i]) > Pos(es, ids[j])
RECURSIVE BadSweeps(_, _, _, _)  \* set of schedulers whose sweep is out of order: s closing deque q; es = enter order
BadSweeps(s, q, dd, es) ==
  LET o == CloseOrder(q) IN
  (IF Decreasing(Ids_(o), es) THEN {} ELSE {s})
   \cup UNION {BadSweeps(o[i].d, dd[o[i].d], dd, es) : i \in {j \in DOMAIN o : Kind[o[j].d] = "dd"}}
Clear(dd) == [s \in Scheds |-> <<>>]

\* ---- init ---------------------------------------------------------------------------------------------
Init == /\ tyme = T0 /\ deeds = [s \in Scheds |-> <<>>]
        /\ doers = [s \in Scheds |-> Kids[s]]
        /\ stack = <<>> /\ cur = [s \in Scheds |-> M]
        /\ ent = <<[s |-> Root, i |-> 1]>> /\ phase = "enter"
        /\ done = [d \in Ids |-> "N"] /\ ddone = FALSE /\ steps = [d \in Ids |-> 0]
        /\ log = <<>> /\ life = [d \in Ids |-> "none"] /\ entSeq = <<>>
        /\ nfaults = 0 /\ nops = 0 /\ badSweep = {} /\ extended = {} /\ removed = {}
        /\ script = [d \in Ids |-> <<>>] /\ given = [d \in Ids |-> <<>>] /\ ranThis = {}
        /\ lastFin = T0 /\ addedThis = {} /\ owed = {} /\ selfRem = {} /\ c06bad = {}

\* ---- recording / following leaf choices -----------------------------------------------------------------
\* A choice is [o, a]: o in {"ok","x","r"} at enter, {"y","r","x","k","e","m"} in recur; a = argument sequence.
Ch(o, a) == [o |-> o, a |-> a]
Allowed(d, c) == IF Follow THEN Len(script[d]) < Len(given[d]) /\ given[d][Len(script[d]) + 1] = c ELSE TRUE
Rec(d, c) == script' = [script EXCEPT ![d] = Append(@, c)]
RetDone(old, v) == IF v = "N" THEN old ELSE v

\* ---- enter phase ---------------------------------------------------------------------------------------
F == ent[Len(ent)]
EntTop(i) == [ent EXCEPT ![Len(ent)] = [s |-> F.s, i |-> i]]
\* exception raised by the enter of a leaf: every DoDoer whose enter is in progress aborts, closes the
\* children it had already entered and exits (innermost first); then Doist.do's finally closes the root deque.
RECURSIVE EnterUnwind(_, _)
EnterUnwind(i, dd) == IF i = 0 THEN <<>>
                      ELSE LET s == ent[i].s IN
                           (IF s = Root THEN CloseSeq(dd[s], dd)
                            ELSE <<E("abort", s)>> \o CloseSeq(dd[s], dd) \o <<E("exit", s)>>)
                           \o EnterUnwind(i - 1, dd)
EnterLeaf ==
  /\ phase = "enter" /\ ent # <<>> /\ F.i <= Len(Kids[F.s]) /\ Kind[Kids[F.s][F.i]] = "leaf"
  /\ LET d == Kids[F.s][F.i] IN
     /\ entSeq' = Append(entSeq, d)
     /\ \/ /\ "ok" \in EnterOuts /\ Allowed(d, Ch("ok", <<>>)) /\ Rec(d, Ch("ok", <<>>))
           /\ Emit(<<E("enter", d)>>)
           /\ deeds' = [deeds EXCEPT ![F.s] = Append(@, Deed(d, tyme))]
           /\ done' = [done EXCEPT ![d] = "F"] /\ ent' = EntTop(F.i + 1)
           /\ UNCHANGED <<phase, nfaults, badSweep>>
        \/ /\ "r" \in EnterOuts
           /\ \E v \in Rets : /\ Allowed(d, Ch("r", <<v>>)) /\ Rec(d, Ch("r", <<v>>))
                              /\ done' = [done EXCEPT ![d] = RetDone("F", v)]
           /\ Emit(<<E("enter", d), E("clean", d), E("exit", d)>>)
           /\ ent' = EntTop(F.i + 1)
           /\ UNCHANGED <<deeds, phase, nfaults, badSweep>>
        \/ /\ "x" \in EnterOuts /\ nfaults < MaxFaults /\ Allowed(d, Ch("x", <<>>)) /\ Rec(d, Ch("x", <<>>))
           /\ Emit(<<E("enter", d), E("abort", d), E("exit", d)>> \o EnterUnwind(Len(ent), deeds))
           /\ badSweep' = badSweep \cup UNION {BadSweeps(ent[i].s, deeds[ent[i].s], deeds, entSeq) : i \in DOMAIN ent}
           /\ done' = [done EXCEPT ![d] = "F"]
           /\ deeds' = Clear(deeds) /\ ent' = <<>> /\ phase' = "raised" /\ nfaults' = nfaults + 1
  /\ UNCHANGED <<tyme, doers, stack, cur, ddone, steps, nops, extended, removed, given>>
  /\ UNCHANGED ranThis
  /\ lastFin' = tyme /\ UNCHANGED <<addedThis, owed, selfRem, c06bad>>
EnterDD ==
  /\ phase = "enter" /\ ent # <<>> /\ F.i <= Len(Kids[F.s]) /\ Kind[Kids[F.s][F.i]] = "dd"
  /\ LET d == Kids[F.s][F.i] IN
     /\ entSeq' = Append(entSeq, d) /\ Emit(<<E("enter", d)>>)
     /\ done' = [done EXCEPT ![d] = "F"]
     /\ ent' = Append(ent, [s |-> d, i |-> 1])
  /\ UNCHANGED <<tyme, deeds, doers, stack, cur, phase, ddone, steps, nfaults, nops, badSweep, extended, removed, script, given>>
  /\ UNCHANGED ranThis
  /\ UNCHANGED <<lastFin, addedThis, owed, selfRem, c06bad>>
EnterPop ==
  /\ phase = "enter" /\ ent # <<>> /\ F.i > Len(Kids[F.s])
  /\ IF F.s = Root
     THEN /\ ent' = <<>> /\ phase' = "top" /\ UNCHANGED deeds
     ELSE LET p == ent[Len(ent) - 1] IN
          /\ deeds' = [deeds EXCEPT ![p.s] = Append(@, Deed(F.s, tyme))]
          /\ ent' = Append(SubSeq(ent, 1, Len(ent) - 2), [s |-> p.s, i |-> p.i + 1])
          /\ UNCHANGED phase
  /\ UNCHANGED <<tyme, doers, stack, cur, done, ddone, steps, log, life, entSeq, nfaults, nops, badSweep,
                 extended, removed, script, given>>

  /\ UNCHANGED ranThis
  /\ UNCHANGED <<lastFin, addedThis, owed, selfRem, c06bad>>
\* ---- cycles --------------------------------------------------------------------------------------------
StartCycle ==
  /\ phase = "top" /\ deeds' = [deeds EXCEPT ![Root] = Append(@, M)]
  /\ stack' = <<Root>> /\ phase' = "cycle"
  /\ UNCHANGED <<tyme, doers, cur, ent, done, ddone, steps, log, life, entSeq, nfaults, nops, badSweep,
                 extended, removed, script, given>>
  /\ UNCHANGED ranThis
  /\ UNCHANGED <<lastFin, addedThis, owed, selfRem, c06bad>>
S == stack[Len(stack)]
H == Head(deeds[S])
Rst == Tail(deeds[S])
InCycle == phase = "cycle" /\ stack # <<>> /\ deeds[S] # <<>>
EndCycleRoot ==
  /\ InCycle /\ S = Root /\ H = M
  /\ tyme' = tyme + Tock /\ deeds' = [deeds EXCEPT ![Root] = Rst] /\ stack' = <<>>
  /\ phase' = IF Rst = <<>> THEN "allDone"
              ELSE IF Limit > 0 /\ tyme + Tock >= T0 + Limit THEN "limit" ELSE "top"
  /\ ddone' = (Rst = <<>>)
  /\ UNCHANGED <<doers, cur, ent, done, steps, log, life, entSeq, nfaults, nops, badSweep, extended, removed, script, given>>
  /\ ranThis' = {}
  /\ c06bad' = c06bad \cup (IF \E d \in owed : d \in AliveIds(deeds) /\ d \notin ranThis /\ d \notin removed THEN {"not-run-in-next-cycle"} ELSE {})
  /\ owed' = addedThis /\ addedThis' = {} /\ UNCHANGED <<lastFin, selfRem>>
EndCycleDD ==
  /\ InCycle /\ S # Root /\ H = M
  /\ LET p == stack[Len(stack) - 1]  c == cur[p] IN
     /\ stack' = Front(stack)
     /\ IF Rst = <<>> /\ ~Always[S]
        THEN /\ deeds' = [deeds EXCEPT ![S] = <<>>]
             /\ done' = [done EXCEPT ![S] = "T"]
             /\ Emit(<<E("clean", S), E("exit", S)>>)
        ELSE /\ deeds' = [deeds EXCEPT ![S] = Rst,
                              ![p] = Append(@, YDeed(p, c, OwnTock[S]))]
             /\ done' = [done EXCEPT ![S] = IF Rst = <<>> THEN "T" ELSE "F"]
             /\ UNCHANGED <<log, life>>
  /\ UNCHANGED <<tyme, doers, cur, ent, phase, ddone, steps, entSeq, nfaults, nops, badSweep, extended, removed, script, given>>
  /\ UNCHANGED ranThis
  /\ lastFin' = (IF Rst = <<>> /\ ~Always[S] THEN tyme ELSE lastFin) /\ UNCHANGED <<addedThis, owed, selfRem, c06bad>>
NotDue ==
  /\ InCycle /\ H # M /\ ~H.asap /\ H.rt > tyme
  /\ deeds' = [deeds EXCEPT ![S] = Append(Rst, H)]
  /\ UNCHANGED <<tyme, doers, stack, cur, ent, phase, done, ddone, steps, log, life, entSeq, nfaults, nops,
                 badSweep, extended, removed, script, given>>
  /\ UNCHANGED ranThis
  /\ UNCHANGED <<lastFin, addedThis, owed, selfRem, c06bad>>
Due == InCycle /\ H # M /\ (H.asap \/ H.rt <= tyme)
DueLeaf == Due /\ Kind[H.d] = "leaf"
Descend ==
  /\ Due /\ Kind[H.d] = "dd"
  /\ cur' = [cur EXCEPT ![S] = H]
  /\ deeds' = [deeds EXCEPT ![S] = Rst, ![H.d] = Append(@, M)]
  /\ stack' = Append(stack, H.d)
  /\ UNCHANGED <<tyme, doers, ent, phase, done, ddone, steps, log, life, entSeq, nfaults, nops, badSweep,
                 extended, removed, script, given>>

  /\ UNCHANGED ranThis
  /\ UNCHANGED <<lastFin, addedThis, owed, selfRem, c06bad>>
\* C06 monitor, evaluated when a leaf runs: a doer added in this very cycle must not run; a removed doer
\* (other than one that removed itself) must never run again.
RunBad == (IF H.d \in addedThis THEN {"ran-in-cycle-it-was-added"} ELSE {})
          \cup (IF H.d \in removed \ selfRem THEN {"removed-doer-ran"} ELSE {})
Step == steps' = [steps EXCEPT ![H.d] = @ + 1]
MayContinue == steps[H.d] + 1 < MaxSteps
Yield(t) ==
  /\ DueLeaf /\ MayContinue /\ Step /\ Allowed(H.d, Ch("y", <<t>>)) /\ Rec(H.d, Ch("y", <<t>>))
  /\ Emit(<<Recur(H.d, "y", <<t>>)>>)
  /\ deeds' = [deeds EXCEPT ![S] = Append(Rst, YDeed(S, H, t))]
  /\ UNCHANGED <<tyme, doers, stack, cur, ent, phase, done, ddone, entSeq, nfaults, nops, badSweep, extended, removed, given>>
  /\ ranThis' = ranThis \cup {H.d}
  /\ c06bad' = c06bad \cup RunBad /\ UNCHANGED <<lastFin, addedThis, owed, selfRem>>
Return(v) ==
  /\ DueLeaf /\ Step /\ Allowed(H.d, Ch("r", <<v>>)) /\ Rec(H.d, Ch("r", <<v>>))
  /\ Emit(<<Recur(H.d, "r", <<v>>), E("clean", H.d), E("exit", H.d)>>)
  /\ deeds' = [deeds EXCEPT ![S] = Rst]
  /\ done' = [done EXCEPT ![H.d] = RetDone(@, v)]
  /\ UNCHANGED <<tyme, doers, stack, cur, ent, phase, ddone, entSeq, nfaults, nops, badSweep, extended, removed, given>>

  /\ ranThis' = ranThis \cup {H.d}
  /\ c06bad' = c06bad \cup RunBad /\ lastFin' = tyme /\ UNCHANGED <<addedThis, owed, selfRem>>
\* an exception (kind "x") or KeyboardInterrupt ("k") leaves the leaf under S: the leaf aborts and exits; every
\* scheduler on the call stack, innermost first, then aborts (if it is a DoDoer), closes its deque (the deed
\* being run is not in it) and exits. At the root an Exception is re-raised by do(), a KeyboardInterrupt ends
\* the run normally (do() returns, done stays False).
RECURSIVE Unwind(_, _, _)
Unwind(i, dd, kind) ==
  IF i = 0 THEN <<>>
  ELSE LET s == stack[i] IN
       (IF s = Root THEN CloseSeq(dd[s], dd)
        ELSE <<E("abort", s)>> \o CloseSeq(dd[s], dd) \o <<E("exit", s)>>)
       \o Unwind(i - 1, dd, kind)
UnwindBad(dd, es) == UNION {BadSweeps(stack[i], dd[stack[i]], dd, es) : i \in DOMAIN stack}
Fault(kind) ==
  /\ DueLeaf /\ kind \in Faults /\ nfaults < MaxFaults /\ Step
  /\ Allowed(H.d, Ch(kind, <<>>)) /\ Rec(H.d, Ch(kind, <<>>))
  /\ LET dd == [deeds EXCEPT ![S] = Rst] IN
     /\ Emit(<<Recur(H.d, kind, <<>>), E("abort", H.d), E("exit", H.d)>>
             \o Unwind(Len(stack), dd, kind))
     /\ badSweep' = badSweep \cup UnwindBad(dd, entSeq)
  /\ deeds' = Clear(deeds) /\ stack' = <<>> /\ nfaults' = nfaults + 1
  /\ phase' = IF kind = "x" THEN "raised" ELSE "interrupted"
  /\ UNCHANGED <<tyme, doers, cur, ent, done, ddone, entSeq, nops, extended, removed, given>>

  /\ ranThis' = ranThis \cup {H.d}
  /\ c06bad' = c06bad \cup RunBad /\ UNCHANGED <<lastFin, addedThis, owed, selfRem>>
\* scheduler.extend(X) called by the running leaf, which then yields 0. New doers are entered one at a
\* time (already present ones, and repeats inside X, are skipped); each enter is ok / returns None / raises.
RECURSIVE ExtEvents(_, _)    \* new: seq of new doers, outs: their enter outcomes -> events up to and incl. a raise
ExtEvents(new, outs) ==
  IF new = <<>> THEN <<>>
  ELSE LET n == new[1] o == outs[1] IN
       IF o = "ok" THEN <<E("enter", n)>> \o ExtEvents(Tail(new), Tail(outs))
       ELSE IF o = "x" THEN <<E("enter", n), E("abort", n), E("exit", n)>>
       ELSE <<E("enter", n), E("clean", n), E("exit", n)>> \o ExtEvents(Tail(new), Tail(outs))
RECURSIVE NewDeeds(_, _, _)
NewDeeds(new, outs, np) == IF np = 0 THEN <<>>
                           ELSE NewDeeds(new, outs, np - 1) \o (IF outs[np] = "ok" THEN <<Deed(new[np], tyme)>> ELSE <<>>)
FirstX(outs) == IF \E i \in DOMAIN outs : outs[i] = "x"
                THEN CHOOSE i \in DOMAIN outs : outs[i] = "x" /\ \A j \in 1..(i-1) : outs[j] # "x" ELSE 0
ChOf(o) == Ch(o, IF o = "r" THEN <<"N">> ELSE <<>>)
Extend(X) ==
  /\ DueLeaf /\ MayContinue /\ nops < MaxOps /\ X \in ExtSeqs[S] /\ Step
  /\ Range(X) \cap removed = {}     \* re-adding a removed doer starts a second life-cycle: outside this model
  /\ Allowed(H.d, Ch("e", X))
  /\ LET new == SeqMinus(Uniq(X), Range(doers[S])) IN
     \E outs \in [DOMAIN new -> EnterOuts] :
       LET fx == FirstX(outs)
           np == IF fx = 0 THEN Len(new) ELSE fx            \* enters attempted
           nadd == IF fx = 0 THEN Len(new) ELSE fx - 1      \* doers added to the membership list
           es == entSeq \o SubSeq(new, 1, np)
           dd0 == [deeds EXCEPT ![S] = Rst \o NewDeeds(new, outs, np)]
       IN
       /\ (fx # 0 => nfaults < MaxFaults /\ \A j \in (fx+1)..Len(new) : outs[j] = "ok")
       /\ script' = [d \in Ids |->
                       IF d = H.d THEN Append(script[d], Ch("e", X))
                       ELSE IF \E i \in 1..np : new[i] = d THEN Append(script[d], ChOf(outs[Pos(new, d)]))
                       ELSE script[d]]
       /\ doers' = [doers EXCEPT ![S] = @ \o SubSeq(new, 1, nadd)]
       /\ entSeq' = es
       /\ done' = [d \in Ids |-> IF \E i \in 1..np : new[i] = d THEN "F" ELSE done[d]]
       /\ extended' = extended \cup {S}
       /\ nops' = nops + 1
       /\ addedThis' = addedThis \cup {new[i] : i \in {j \in 1..np : outs[j] = "ok"}}
       /\ lastFin' = IF \E i \in 1..np : outs[i] = "r" THEN tyme ELSE lastFin
       /\ c06bad' = c06bad \cup RunBad /\ UNCHANGED <<owed, selfRem>>
       /\ IF fx = 0
          THEN /\ Emit(<<Recur(H.d, "e", X)>> \o ExtEvents(new, outs) \o <<Ev("members", S, 0, "", doers'[S])>>)
               /\ deeds' = [dd0 EXCEPT ![S] = Append(@, AsapDeed(S, H.d))]
               /\ UNCHANGED <<stack, phase, nfaults, badSweep>>
          ELSE /\ Emit(<<Recur(H.d, "e", X)>> \o ExtEvents(new, outs) \o <<E("abort", H.d), E("exit", H.d)>>
                       \o Unwind(Len(stack), dd0, "x"))
               /\ badSweep' = badSweep \cup UnwindBad(dd0, es)
               /\ deeds' = Clear(deeds) /\ stack' = <<>> /\ phase' = "raised" /\ nfaults' = nfaults + 1
  /\ UNCHANGED <<tyme, cur, ent, ddone, removed, given>>

  /\ ranThis' = ranThis \cup {H.d}
\* scheduler.remove(X) called by the running leaf, which then yields 0 (it keeps running even if it removed
\* itself: its deed is not in the deque while it runs).
Remove(X) ==
  /\ DueLeaf /\ MayContinue /\ nops < MaxOps /\ X \in RemSeqs[S] /\ Step
  /\ Allowed(H.d, Ch("m", X)) /\ Rec(H.d, Ch("m", X))
  /\ LET rd == Range(X) \cap Range(doers[S]) IN
     /\ doers' = [doers EXCEPT ![S] = SeqMinus(@, rd)]
     /\ removed' = removed \cup rd
     /\ selfRem' = selfRem \cup (rd \cap {H.d})
     /\ c06bad' = c06bad \cup RunBad /\ UNCHANGED <<lastFin, addedThis, owed>>
     /\ LET q == Filt(Rst, rd \cup {"M"}) IN          \* sub-deque with the marker, so the close order is known
        /\ Emit(<<Recur(H.d, "m", X)>> \o CloseSeq(q, deeds) \o <<Ev("members", S, 0, "", doers'[S])>>)
        /\ badSweep' = badSweep \cup BadSweeps(S, q, deeds, entSeq)
     /\ deeds' = [s \in Scheds |->
                    IF s = S THEN Append(Drop(Rst, rd), AsapDeed(S, H.d))
                    ELSE IF s \in rd THEN <<>> ELSE deeds[s]]
  /\ nops' = nops + 1
  /\ UNCHANGED <<tyme, stack, cur, ent, phase, done, ddone, entSeq, nfaults, extended, given>>

  /\ ranThis' = ranThis \cup {H.d}
Finish ==
  /\ phase = "limit"
  /\ Emit(CloseSeq(deeds[Root], deeds)) /\ badSweep' = badSweep \cup BadSweeps(Root, deeds[Root], deeds, entSeq)
  /\ deeds' = Clear(deeds) /\ phase' = "limited"
  /\ UNCHANGED <<tyme, doers, stack, cur, ent, done, ddone, steps, entSeq, nfaults, nops, extended, removed, script, given>>

  /\ UNCHANGED ranThis
  /\ UNCHANGED <<lastFin, addedThis, owed, selfRem, c06bad>>
Next == \/ EnterLeaf \/ EnterDD \/ EnterPop \/ StartCycle \/ EndCycleRoot \/ EndCycleDD \/ NotDue \/ Descend \/ Finish
        \/ (\E t \in Tocks : Yield(t)) \/ (\E v \in Rets : Return(v)) \/ (\E k \in Faults : Fault(k))
        \/ (\E X \in UNION {ExtSeqs[s] : s \in Scheds} : Extend(X))
        \/ (\E X \in UNION {RemSeqs[s] : s \in Scheds} : Remove(X))
Spec == Init /\ [][Next]_vars
Terminal == phase \in {"allDone", "limited", "raised", "interrupted"}

\* ==== properties =========================================================================================
\* C01: every started doer: enter, recur*, exactly one of clean/cease/abort, exit, nothing after; and nobody
\* is left inside a life-cycle when the run has ended.
LifeOK == \A d \in Ids : life[d] \notin {"bad", "noend"}
AllOutAtEnd == Terminal => \A d \in Ids : life[d] \in {"none", "out"}
\* C02: every forced-close sweep of a scheduler closes its children in reverse enter order
SweepsOrdered == badSweep = {}
\* known finding C02-extend: doers added by extend() while a cycle is in progress sit in the deque before
\* the doers that had not yet run in that cycle
SweepsOrderedModuloExtend == badSweep \subseteq extended
\* C06: runtime extend/remove take effect exactly (membership exactness is bound by the replay)
OpsExact == c06bad = {}
\* C05
EndExact == /\ phase = "allDone" => tyme = lastFin + Tock /\ ddone
            /\ phase \in {"limit", "limited"} => Limit > 0 /\ tyme >= T0 + Limit /\ tyme - Tock < T0 + Limit /\ ~ddone
            /\ phase \in {"raised", "interrupted"} => ~ddone
DoneExact == /\ (phase = "allDone" <=> ddone)
             /\ \A d \in Ids : Kind[d] = "leaf" /\ done[d] = "T" =>
                   \E i \in DOMAIN script[d] : script[d][i].o = "r" /\ script[d][i].a = <<"T">>
TypeOK == /\ tyme \in Nat /\ phase \in {"enter", "top", "cycle", "limit", "allDone", "limited", "raised", "interrupted"}
          /\ \A d \in Ids : steps[d] <= MaxSteps
====
