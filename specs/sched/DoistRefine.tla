---- MODULE DoistRefine ----
\* Refinement: the deque scheduler (flat, or nested with tock-0 not-always DoDoers; no faults, no
\* extend/remove) implements FlatSched for its leaf doers (C03), hence nesting is transparent (C04).
EXTENDS DoistGen
RECURSIVE PreL(_, _)
PreL(q, i) == IF i > Len(q) THEN <<>>
              ELSE (IF Kind[q[i]] = "dd" THEN PreL(Kids[q[i]], 1) ELSE <<q[i]>>) \o PreL(q, i + 1)
LeavesSeq == PreL(Kids[Root], 1)
LeafIds == {d \in Ids : Kind[d] = "leaf"}
RECURSIVE LeafProj(_)
LeafProj(l) == IF l = <<>> THEN <<>>
               ELSE (IF l[1].d \in LeafIds THEN <<l[1]>> ELSE <<>>) \o LeafProj(Tail(l))
AllDeeds == UNION {{deeds[s][i] : i \in DOMAIN deeds[s]} : s \in Scheds}
LeafDeeds == {x \in AllDeeds : x.d \in LeafIds}
DeedOf(d) == CHOOSE x \in LeafDeeds : x.d = d
MapDue(x) == IF x.asap THEN (IF x.d \in ranThis THEN tyme + Tock ELSE tyme) ELSE x.rt
AbsDue == [d \in {x.d : x \in LeafDeeds} |-> MapDue(DeedOf(d))]
AbsPhase == IF phase \in {"top", "cycle"} THEN "run" ELSE phase
AbsNext == Cardinality({i \in DOMAIN entSeq : entSeq[i] \in LeafIds}) + 1
Flat == INSTANCE FlatSched WITH Leaves <- LeavesSeq, ftyme <- tyme, fdue <- AbsDue, fran <- ranThis,
          fphase <- AbsPhase, fnext <- AbsNext, flog <- LeafProj(log),
          fdone <- [d \in LeafIds |-> done[d]], fsteps <- [d \in LeafIds |-> steps[d]]
FlatSpec == Flat!FSpec
====
