---- MODULE DoistGen ----
\* G2 dump: every terminal state prints the whole behaviour (observable log, recorded choices, final flags).
EXTENDS Doist, Json
Behaviour == [log |-> log, script |-> script, done |-> done, ddone |-> ddone, tyme |-> tyme, phase |-> phase,
              doers |-> doers, bad |-> badSweep, ext |-> extended, life |-> life]
Dump == Terminal => PrintT(<<"BH", ToJson(Behaviour)>>)
====
