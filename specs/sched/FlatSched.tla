---- MODULE FlatSched ----
\* The documented cycle model of hio virtual-time scheduling (C03), with no deques, markers or nesting:
\*   tyme advances by exactly one Tock per cycle; in a cycle the due doers run at most once each, in enter
\*   order, observing the current tyme; a doer that yields t > 0 is next due at its previous due tyme + t,
\*   one that yields 0/None is due in the next cycle; the run ends after the cycle in which the last doer
\*   finished (done) or after the first cycle whose end tyme is >= start + Limit (alive doers are then
\*   force-closed in reverse enter order).
\* Doist.tla (the deque implementation, flat or nested with tock-0 DoDoers) must refine this spec for its
\* leaf doers; because this model does not depend on how leaves are grouped, that refinement is also the
\* transparency of tock-0 nesting (C04).
EXTENDS Naturals, Sequences, FiniteSets
CONSTANTS Leaves, Tock, T0, Limit, MaxSteps, Tocks, Rets, EnterOuts
VARIABLES ftyme, fdue, fran, fphase, fnext, flog, fdone, fsteps
fvars == <<ftyme, fdue, fran, fphase, fnext, flog, fdone, fsteps>>
LeafSet == {Leaves[i] : i \in DOMAIN Leaves}
Ev(k, d, t, o, a) == [k |-> k, d |-> d, t |-> t, o |-> o, a |-> a]
E(k, d) == Ev(k, d, 0, "", <<>>)
PosL(d) == CHOOSE i \in DOMAIN Leaves : Leaves[i] = d
Put(f, k, v) == [x \in DOMAIN f \cup {k} |-> IF x = k THEN v ELSE f[x]]
Del(f, k) == [x \in DOMAIN f \ {k} |-> f[x]]
RetDone(old, v) == IF v = "N" THEN old ELSE v
FInit == /\ ftyme = T0 /\ fdue = <<>> /\ fran = {} /\ fphase = "enter" /\ fnext = 1 /\ flog = <<>>
         /\ fdone = [d \in LeafSet |-> "N"] /\ fsteps = [d \in LeafSet |-> 0]
FEnter ==
  /\ fphase = "enter" /\ fnext <= Len(Leaves)
  /\ LET d == Leaves[fnext] IN
     \/ /\ "ok" \in EnterOuts /\ fdue' = Put(fdue, d, ftyme) /\ flog' = Append(flog, E("enter", d))
        /\ fdone' = [fdone EXCEPT ![d] = "F"]
     \/ /\ "r" \in EnterOuts /\ \E v \in Rets : fdone' = [fdone EXCEPT ![d] = RetDone("F", v)]
        /\ flog' = flog \o <<E("enter", d), E("clean", d), E("exit", d)>> /\ UNCHANGED fdue
  /\ fnext' = fnext + 1
  /\ UNCHANGED <<ftyme, fran, fphase, fsteps>>
FEnterDone ==
  /\ fphase = "enter" /\ fnext > Len(Leaves) /\ fphase' = "run"
  /\ UNCHANGED <<ftyme, fdue, fran, fnext, flog, fdone, fsteps>>
Pending(d) == d \in DOMAIN fdue /\ d \notin fran /\ fdue[d] <= ftyme     \* due and not yet run this cycle
MyTurn(d) == Pending(d) /\ \A e \in LeafSet : PosL(e) < PosL(d) => ~Pending(e)
FYield(d, t) ==
  /\ fphase = "run" /\ MyTurn(d) /\ fsteps[d] + 1 < MaxSteps
  /\ fdue' = [fdue EXCEPT ![d] = IF t = 0 THEN ftyme + Tock ELSE @ + t]
  /\ fran' = fran \cup {d} /\ fsteps' = [fsteps EXCEPT ![d] = @ + 1]
  /\ flog' = Append(flog, Ev("recur", d, ftyme, "y", <<t>>))
  /\ UNCHANGED <<ftyme, fphase, fnext, fdone>>
FReturn(d, v) ==
  /\ fphase = "run" /\ MyTurn(d)
  /\ fdue' = Del(fdue, d) /\ fran' = fran \cup {d} /\ fsteps' = [fsteps EXCEPT ![d] = @ + 1]
  /\ fdone' = [fdone EXCEPT ![d] = RetDone(@, v)]
  /\ flog' = flog \o <<Ev("recur", d, ftyme, "r", <<v>>), E("clean", d), E("exit", d)>>
  /\ UNCHANGED <<ftyme, fphase, fnext>>
FTick ==
  /\ fphase = "run" /\ \A d \in LeafSet : ~Pending(d)
  /\ ftyme' = ftyme + Tock /\ fran' = {}
  /\ fphase' = IF DOMAIN fdue = {} THEN "allDone"
               ELSE IF Limit > 0 /\ ftyme + Tock >= T0 + Limit THEN "limit" ELSE "run"
  /\ UNCHANGED <<fdue, fnext, flog, fdone, fsteps>>
RECURSIVE CloseRev(_, _)
CloseRev(i, alive) == IF i = 0 THEN <<>>
                      ELSE (IF Leaves[i] \in alive THEN <<E("cease", Leaves[i]), E("exit", Leaves[i])>> ELSE <<>>)
                           \o CloseRev(i - 1, alive)
FFinish ==
  /\ fphase = "limit" /\ flog' = flog \o CloseRev(Len(Leaves), DOMAIN fdue)
  /\ fdue' = <<>> /\ fphase' = "limited"
  /\ UNCHANGED <<ftyme, fran, fnext, fdone, fsteps>>
FNext == \/ FEnter \/ FEnterDone \/ FTick \/ FFinish
         \/ \E d \in LeafSet : (\E t \in Tocks : FYield(d, t)) \/ (\E v \in Rets : FReturn(d, v))
FSpec == FInit /\ [][FNext]_fvars
\* what the model promises (checked on FlatSched itself)
TickExact == [][ftyme' # ftyme => ftyme' = ftyme + Tock]_fvars
OncePerCycle == [][\A d \in LeafSet : d \in fran => (UNCHANGED fran \/ fran' = {} \/ (d \in fran' /\ fsteps'[d] = fsteps[d]))]_fvars
====
