---- MODULE MCDoist ----
EXTENDS Doist
MCKids == [R |-> <<"a","G","d">>, G |-> <<"b","c">>]
MCKind == [a |-> "leaf", b |-> "leaf", c |-> "leaf", d |-> "leaf", G |-> "dd", x |-> "leaf"]
MCAlways == [G |-> FALSE]
MCOwnTock == [G |-> 0]
MCExtSeqs == [R |-> {<<"x">>, <<"x","x">>, <<"a","x">>}, G |-> {}]
MCRemSeqs == [R |-> {<<"a">>, <<"d","a">>, <<"G">>}, G |-> {<<"b">>, <<"c","b">>}]
====
