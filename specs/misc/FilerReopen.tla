---- MODULE FilerReopen ----
\* hio.base.filing.Filer over its life: open, reopen(temp=..., clear=...) any number of times, close(clear) (property C29,
\* second part).  reopen() first closes - clearing, when asked, what the resource is NOW (a temp resource: its whole temp
\* root; a persistent one: the leaf at its path) - and only then takes the new settings and makes the new path.
EXTENDS Naturals, Sequences, FiniteSets, TLC
CONSTANTS HeadDir, TempHead, Names, MaxReopens
VARIABLES flags, temp, nroots, root, path, fs, phase, steps
vars == <<flags, temp, nroots, root, path, fs, phase, steps>>
RootNames == <<"T1", "T2", "T3", "T4">>
IsPrefix(p, q) == Len(p) <= Len(q) /\ SubSeq(q, 1, Len(p)) = p
Inside(p, d) == IsPrefix(d, p)
Prefixes(p) == {SubSeq(p, 1, k) : k \in 1..Len(p)}
Dir(p) == SubSeq(p, 1, Len(p) - 1)
Named(nm) == IF flags.filed \/ flags.ext THEN SubSeq(nm, 1, Len(nm) - 1) \o <<nm[Len(nm)] \o ".text">> ELSE nm
Tail_ == IF flags.clean THEN <<"hio", "clean">> ELSE <<"hio">>
Init == /\ flags \in [clean : BOOLEAN, filed : BOOLEAN, ext : BOOLEAN, name : Names]
        /\ temp = FALSE /\ nroots = 0 /\ root = <<>> /\ path = <<>> /\ phase = "new" /\ steps = <<>>
        /\ fs = Prefixes(HeadDir) \cup Prefixes(TempHead)
\* what close(clear) removes for the resource as it is now
Gone(clear) == IF ~clear \/ phase = "new" THEN {}
               ELSE IF temp THEN {q \in fs : Inside(q, root)} ELSE {q \in fs : Inside(q, path)}
\* (re)make the path with temp setting t on filesystem f
Make(t, f) == LET r == IF t THEN Append(TempHead, RootNames[nroots + 1]) ELSE <<>>
                  head == IF t THEN r ELSE HeadDir
                  p == head \o Tail_ \o Named(flags.name)
                  dirs == IF flags.filed \/ flags.ext THEN Prefixes(Dir(p)) ELSE Prefixes(p)
                  new == (dirs \cup (IF flags.filed THEN {p} ELSE {}) \cup (IF t THEN Prefixes(r) ELSE {})) \ f
              IN [root |-> r, path |-> p, new |-> new]
Step(op, t, clear) ==
  LET gone == Gone(clear)
      f1 == fs \ gone
      m == IF op = "close" THEN [root |-> root, path |-> path, new |-> {}] ELSE Make(t, f1) IN
  /\ fs' = f1 \cup m.new /\ root' = m.root /\ path' = m.path
  /\ temp' = (IF op = "close" THEN temp ELSE t)
  /\ nroots' = (IF op # "close" /\ t THEN nroots + 1 ELSE nroots)
  /\ steps' = Append(steps, [op |-> op, t |-> t, clear |-> clear, wastemp |-> temp, oldroot |-> root, oldpath |-> path,
                             deleted |-> gone, created |-> m.new, path |-> m.path, root |-> m.root])
  /\ UNCHANGED flags
Open(t) == phase = "new" /\ Step("open", t, FALSE) /\ phase' = "open"
Reopen(t, clear) == phase = "open" /\ Len(steps) <= MaxReopens /\ Step("reopen", t, clear) /\ phase' = "open"
Close(clear) == phase = "open" /\ Step("close", temp, clear) /\ phase' = "closed"
Next == \E t \in BOOLEAN, c \in BOOLEAN : Open(t) \/ Reopen(t, c) \/ Close(c)
Spec == Init /\ [][Next]_vars
-----------------------------------------------------------------------------
\* C29 over the whole life: every step deletes only inside what the resource was (its temp root / its own path) and
\* creates only inside its (new) head directory; a clearing step leaves nothing of a temp resource behind
StepsContained == \A i \in DOMAIN steps : LET s == steps[i] IN
   /\ \A q \in s.deleted : IF s.wastemp THEN Inside(q, s.oldroot) ELSE Inside(q, s.oldpath)
   /\ \A q \in s.created : Inside(q, IF s.t /\ s.op # "close" THEN s.root ELSE HeadDir) \/ (s.op # "close" /\ s.t /\ q \in Prefixes(s.root))
ClearedTempGone == \A i \in DOMAIN steps : LET s == steps[i] IN
   (s.clear /\ s.wastemp /\ s.op # "open") => \A q \in fs : ~Inside(q, s.oldroot)
====
