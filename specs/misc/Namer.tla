---- MODULE Namer ----
\* hio.help.naming.Namer: one-to-one registry name <-> addr (property C27).
\* Variables are the two public mappings; every public mutator is one action whose
\* result (True / False / NamerError) is recorded in res.
EXTENDS Naturals, Sequences, FiniteSets, TLC
CONSTANTS Names, Addrs, NoVal   \* NoVal models None/"" argument
VARIABLES a2n, n2a, res          \* res = result of last op: "T","F","E" (raised), or "-"
vars == <<a2n, n2a, res>>
Dom(f) == DOMAIN f
Init == a2n = <<>> /\ n2a = <<>> /\ res = "-"
Put(f, k, v) == [x \in DOMAIN f \cup {k} |-> IF x = k THEN v ELSE f[x]]
Del(f, k) == [x \in DOMAIN f \ {k} |-> f[x]]
Unch(r) == res' = r /\ UNCHANGED <<a2n, n2a>>
Add(n, a) ==
  IF n = NoVal \/ a = NoVal THEN Unch("E")
  ELSE IF n \in DOMAIN n2a THEN (IF n2a[n] = a THEN Unch("F") ELSE Unch("E"))
  ELSE IF a \in DOMAIN a2n THEN (IF a2n[a] = n THEN Unch("F") ELSE Unch("E"))
  ELSE n2a' = Put(n2a, n, a) /\ a2n' = Put(a2n, a, n) /\ res' = "T"
Rem(n, a) ==
  IF n # NoVal THEN
     IF n \notin DOMAIN n2a THEN Unch("F")
     ELSE IF a # NoVal /\ a # n2a[n] THEN Unch("F")
     ELSE n2a' = Del(n2a, n) /\ a2n' = Del(a2n, n2a[n]) /\ res' = "T"
  ELSE IF a # NoVal THEN
     IF a \notin DOMAIN a2n THEN Unch("F")
     ELSE n2a' = Del(n2a, a2n[a]) /\ a2n' = Del(a2n, a) /\ res' = "T"
  ELSE Unch("F")
ChgAddr(n, a) ==
  IF n = NoVal \/ a = NoVal THEN Unch("E")
  ELSE IF n \notin DOMAIN n2a THEN Unch("F")
  ELSE IF n2a[n] = a THEN Unch("F")
  ELSE IF a \in DOMAIN a2n THEN Unch("E")
  ELSE n2a' = Put(n2a, n, a) /\ a2n' = Put(Del(a2n, n2a[n]), a, n) /\ res' = "T"
ChgName(a, n) ==
  IF n = NoVal \/ a = NoVal THEN Unch("E")
  ELSE IF a \notin DOMAIN a2n THEN Unch("F")
  ELSE IF a2n[a] = n THEN Unch("F")
  ELSE IF n \in DOMAIN n2a THEN Unch("E")
  ELSE a2n' = Put(a2n, a, n) /\ n2a' = Put(Del(n2a, a2n[a]), n, a) /\ res' = "T"
Clear == n2a' = <<>> /\ a2n' = <<>> /\ res' = "-"
\* the constructor's bulk load: the pairs are added one after the other to an empty registry; the first one that
\* addNameAddr refuses with an error makes the constructor raise (res "E"); a repeated identical pair is harmless
AddF(st, n, a) == IF st.r = "E" THEN st
                  ELSE IF n = NoVal \/ a = NoVal THEN [st EXCEPT !.r = "E"]
                  ELSE IF n \in DOMAIN st.n2a THEN (IF st.n2a[n] = a THEN st ELSE [st EXCEPT !.r = "E"])
                  ELSE IF a \in DOMAIN st.a2n THEN [st EXCEPT !.r = "E"]
                  ELSE [r |-> "T", n2a |-> Put(st.n2a, n, a), a2n |-> Put(st.a2n, a, n)]
RECURSIVE LoadF(_, _)
LoadF(st, pairs) == IF pairs = <<>> THEN st ELSE LoadF(AddF(st, Head(pairs)[1], Head(pairs)[2]), Tail(pairs))
Load(pairs) == /\ n2a = <<>> /\ a2n = <<>>
               /\ LET st == LoadF([r |-> "T", n2a |-> <<>>, a2n |-> <<>>], pairs) IN
                  IF st.r = "E" THEN Unch("E") ELSE n2a' = st.n2a /\ a2n' = st.a2n /\ res' = "T"
NN == Names \cup {NoVal}
AA == Addrs \cup {NoVal}
Next == \E n \in NN, a \in AA : Add(n,a) \/ Rem(n,a) \/ ChgAddr(n,a) \/ ChgName(a,n) \/ Clear
Spec == Init /\ [][Next]_vars
Bijection == /\ DOMAIN n2a = {a2n[a] : a \in DOMAIN a2n}
             /\ \A n \in DOMAIN n2a : n2a[n] \in DOMAIN a2n /\ a2n[n2a[n]] = n
             /\ \A a \in DOMAIN a2n : n2a[a2n[a]] = a
NoChangeOnReject == [][res' \in {"F","E"} => UNCHANGED <<a2n, n2a>>]_vars
====
