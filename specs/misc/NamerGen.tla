---- MODULE NamerGen ----
\* G1 transition dump of Namer: every (pre-state, op, args) -> (result, post-state), replayed on the real class.
EXTENDS Namer, Json
VARIABLES pre, act
gvars == <<vars, pre, act>>
Abs == [n2a |-> n2a, a2n |-> a2n]
GInit == Init /\ pre = Abs /\ act = [op |-> "init", n |-> "", a |-> ""]
GStep(opname, n, a, A) == A /\ pre' = Abs /\ act' = [op |-> opname, n |-> n, a |-> a]
GNext == \/ \E n \in NN, a \in AA :
              \/ GStep("add", n, a, Add(n,a))
              \/ GStep("rem", n, a, Rem(n,a))
              \/ GStep("chgaddr", n, a, ChgAddr(n,a))
              \/ GStep("chgname", n, a, ChgName(a,n))
         \/ GStep("clear", "", "", Clear)
         \/ \E p1 \in NN \X AA, p2 \in NN \X AA :
              \/ (Load(<<p1>>) /\ pre' = Abs /\ act' = [op |-> "load", n |-> "", a |-> "", pairs |-> <<p1>>])
              \/ (Load(<<p1, p2>>) /\ pre' = Abs /\ act' = [op |-> "load", n |-> "", a |-> "", pairs |-> <<p1, p2>>])
GSpec == GInit /\ [][GNext]_gvars
Emit == PrintT(<<"TR", ToJson([pre |-> pre, act |-> act, res |-> res, post |-> Abs])>>)
====
