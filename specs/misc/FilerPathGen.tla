---- MODULE FilerPathGen ----
EXTENDS FilerPath, Json
Emit == phase # "closed" \/ PrintT(<<"CF", ToJson([cfg |-> cfg, err |-> err, path |-> path, escapes |-> Escapes(cfg),
                                                   pathIsHead |-> (Full(cfg) = HeadOf(cfg))])>>)
====
