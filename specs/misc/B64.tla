---- MODULE B64 ----
\* hio.help.helping Base64 conversions (property C26): intToB64 / b64ToInt / codeB64ToB2 / codeB2ToB64 / nabSextets.
\* Two layers.
\*  (1) Specification at the level of digit and bit sequences (no machine integers, so it applies to values of any size):
\*      an integer is its canonical big-endian base-64 digit sequence; a code string is a sequence of sextets; a binary
\*      string is a sequence of octets; conversions are re-groupings of one bit sequence.
\*  (2) The arithmetic the code performs (div/mod loop, shifts by 2*(l % 4), ceil(l*3/4)) transcribed action by action.
\* TLC checks that (2) computes (1) and that the listed inverse laws hold, for every input in the bounded domain;
\* the Gen/Trace modules bind the real functions to (1).
EXTENDS Naturals, Sequences, TLC
CONSTANTS Sx,        \* sextet alphabet used to build inputs (subset of 0..63)
          MaxLen,    \* maximal number of sextets of an input
          Ls         \* minimum lengths l tried
VARIABLES s          \* the current input: a sequence of sextets
vars == <<s>>
Init == s \in {<<x>> : x \in Sx}
Next == Len(s) < MaxLen /\ \E x \in Sx : s' = Append(s, x)
Spec == Init /\ [][Next]_vars
-----------------------------------------------------------------------------
\* ---- (1) sequence-level specification
RECURSIVE Strip(_)
Strip(d) == IF Len(d) > 1 /\ d[1] = 0 THEN Strip(Tail(d)) ELSE d          \* canonical digits: no leading zero
Zeros(n) == [i \in 1..n |-> 0]
PadTo(d, l) == IF Len(d) >= l THEN d ELSE Zeros(l - Len(d)) \o d           \* left pad with digit 0 ("A")
SpecIntToB64(d, l) == PadTo(Strip(d), l)                                    \* d: any digit sequence denoting the integer
SpecB64ToInt(c) == Strip(c)                                                 \* the integer, as canonical digits
Bit(v, k) == (v \div (2 ^ k)) % 2
SexBits(x) == <<Bit(x,5), Bit(x,4), Bit(x,3), Bit(x,2), Bit(x,1), Bit(x,0)>>
OctBits(x) == <<Bit(x,7), Bit(x,6), Bit(x,5), Bit(x,4), Bit(x,3), Bit(x,2), Bit(x,1), Bit(x,0)>>
RECURSIVE FlatS(_)
FlatS(c) == IF c = <<>> THEN <<>> ELSE SexBits(Head(c)) \o FlatS(Tail(c))
RECURSIVE FlatO(_)
FlatO(b) == IF b = <<>> THEN <<>> ELSE OctBits(Head(b)) \o FlatO(Tail(b))
Val(bits) == LET RECURSIVE V(_, _)
                 V(i, acc) == IF i > Len(bits) THEN acc ELSE V(i + 1, 2 * acc + bits[i])
             IN V(1, 0)
Group(bits, w) == [i \in 1..(Len(bits) \div w) |-> Val(SubSeq(bits, (i - 1) * w + 1, i * w))]
NOct(l) == (l * 3 + 3) \div 4                                               \* ceil(l*3/4)
SpecCodeB64ToB2(c) == LET bits == FlatS(c) IN Group(bits \o Zeros(8 * NOct(Len(c)) - Len(bits)), 8)
SpecCodeB2ToB64(b, l) == Group(SubSeq(FlatO(b), 1, 6 * l), 6)              \* needs Len(b) >= NOct(l)
SpecNab(b, l) == LET n == NOct(l) IN Group(SubSeq(FlatO(b), 1, 6 * l) \o Zeros(8 * n - 6 * l), 8)
-----------------------------------------------------------------------------
\* ---- (2) the code's arithmetic (only for inputs whose value fits a TLC integer: Len <= 5 sextets)
IntOf(c) == LET RECURSIVE V(_, _)
                V(i, acc) == IF i > Len(c) THEN acc ELSE V(i + 1, 64 * acc + c[i])
            IN V(1, 0)
\* intToB64: d = deque(); while l: d.appendleft(i % 64); i //= 64; if not i: break ; then left pad to l
CodeIntToB64(i, l) ==
   LET RECURSIVE Loop(_, _)
       Loop(v, d) == LET d2 == <<v % 64>> \o d IN IF v \div 64 = 0 THEN d2 ELSE Loop(v \div 64, d2)
       d == IF l = 0 THEN <<>> ELSE Loop(i, <<>>)
   IN IF l > Len(d) THEN Zeros(l - Len(d)) \o d ELSE d
CodeB64ToInt(c) == IntOf(c)                    \* i |= idx << (e*6) over reversed chars: the positional value
ToBytes(v, n) == [k \in 1..n |-> (v \div (256 ^ (n - k))) % 256]
FromBytes(b) == LET RECURSIVE V(_, _)
                    V(i, acc) == IF i > Len(b) THEN acc ELSE V(i + 1, 256 * acc + b[i])
                IN V(1, 0)
CodeCodeB64ToB2(c) == ToBytes(IntOf(c) * (2 ^ (2 * (Len(c) % 4))), NOct(Len(c)))
CodeCodeB2ToB64(b, l) == CodeIntToB64(FromBytes(SubSeq(b, 1, NOct(l))) \div (2 ^ (2 * (l % 4))), l)
CodeNab(b, l) == LET p == 2 ^ (2 * (l % 4)) IN ToBytes((FromBytes(SubSeq(b, 1, NOct(l))) \div p) * p, NOct(l))
-----------------------------------------------------------------------------
\* ---- properties (C26), evaluated for every input s of the bounded domain
Fits == Len(s) <= 5 /\ (Len(s) = 5 => s[1] < 32)      \* value < 2^29: all intermediate products stay below 2^31
\* the arithmetic is the specification
ArithIsSpec == Fits =>
   /\ \A l \in Ls : l > 0 => CodeIntToB64(IntOf(s), l) = SpecIntToB64(s, l)
   /\ Len(s) <= 4 => CodeCodeB64ToB2(s) = SpecCodeB64ToB2(s)
   /\ Len(s) <= 4 => \A l \in 1..Len(s) : LET b == SpecCodeB64ToB2(s) IN
                           /\ CodeCodeB2ToB64(b, l) = SpecCodeB2ToB64(b, l)
                           /\ CodeNab(b, l) = SpecNab(b, l)
\* int -> b64 -> int is the identity, and the length is max(l, number of digits)
IntInverse == \A l \in Ls : l > 0 =>
   /\ SpecB64ToInt(SpecIntToB64(s, l)) = Strip(s)
   /\ Len(SpecIntToB64(s, l)) = (IF Len(Strip(s)) > l THEN Len(Strip(s)) ELSE l)
\* code -> binary -> code with its length is the identity
CodeInverse == SpecCodeB2ToB64(SpecCodeB64ToB2(s), Len(s)) = s
\* nabbing l sextets keeps exactly the leading 6*l bits (and zeroes the rest of the last octet)
NabKeepsLeadingBits == \A l \in 1..Len(s) :
   LET b == SpecCodeB64ToB2(s)  nb == SpecNab(b, l) IN
   /\ Len(nb) = NOct(l)
   /\ SubSeq(FlatO(nb), 1, 6 * l) = SubSeq(FlatO(b), 1, 6 * l)
   /\ \A k \in (6 * l + 1)..(8 * NOct(l)) : FlatO(nb)[k] = 0
   /\ SpecCodeB2ToB64(nb, l) = SubSeq(s, 1, l)
====
