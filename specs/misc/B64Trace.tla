---- MODULE B64Trace ----
\* C->S: calls of the real functions on inputs of any size (digit/sextet/octet lists, so no machine integers),
\* one record per call: op, arguments, result. A record is accepted iff the result is what the specification says.
EXTENDS B64, Json, IOUtils
VARIABLES tid, l
Traces == JsonDeserialize(IOEnv.TRACE_FILE)
tvars == <<vars, tid, l>>
TInit == s = <<>> /\ tid \in 1..Len(Traces) /\ l = 1
Ev == Traces[tid][l]
Ok == CASE Ev.op = "intToB64"    -> Ev.out = SpecIntToB64(Ev.d, Ev.l)
        [] Ev.op = "b64ToInt"    -> Ev.out = SpecB64ToInt(Ev.c)
        [] Ev.op = "codeB64ToB2" -> Ev.out = SpecCodeB64ToB2(Ev.c)
        [] Ev.op = "codeB2ToB64" -> Ev.out = SpecCodeB2ToB64(Ev.b, Ev.l)
        [] Ev.op = "nabSextets"  -> Ev.out = SpecNab(Ev.b, Ev.l)
TNext == l <= Len(Traces[tid]) /\ Ok /\ l' = l + 1 /\ UNCHANGED <<s, tid>>
TSpec == TInit /\ [][TNext]_tvars
Progress == PrintT(<<"AT", tid, l>>)
====
