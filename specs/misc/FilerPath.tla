---- MODULE FilerPath ----
\* hio.base.filing.Filer (property C29): where a Filer creates and deletes, as a path algebra over a small filesystem.
\* Paths are sequences of segments from the root of a sandbox.  A configuration is (temp, clean, filed, extensioned,
\* base, name); Open is Filer.__init__/reopen -> remake, Close is close(clear).  The head directory is HeadDir for
\* persistent resources and the fresh temporary root TempRoot (mkdtemp under TempHead) for temp ones.
EXTENDS Naturals, Sequences, FiniteSets, TLC
CONSTANTS Segs,        \* segment alphabet for base and name, e.g. {"a", "b", "..", "."}
          HeadDir,     \* head directory (persistent), a path
          TempHead,    \* directory in which temp roots are made
          MaxName, MaxBase
VARIABLES cfg, phase, fs, path, err, created, deleted
vars == <<cfg, phase, fs, path, err, created, deleted>>
TempRoot == Append(TempHead, "T")
RECURSIVE Norm(_, _)        \* os.path.abspath over segments: "." dropped, ".." pops (never above the root)
Norm(q, acc) == IF q = <<>> THEN acc
                ELSE IF Head(q) = "." \/ Head(q) = "" THEN Norm(Tail(q), acc)
                ELSE IF Head(q) = ".." THEN Norm(Tail(q), IF acc = <<>> THEN acc ELSE SubSeq(acc, 1, Len(acc) - 1))
                ELSE Norm(Tail(q), Append(acc, Head(q)))
IsPrefix(p, q) == Len(p) <= Len(q) /\ SubSeq(q, 1, Len(p)) = p
Inside(p, d) == IsPrefix(d, p)                      \* p is d or below d
Prefixes(p) == {SubSeq(p, 1, k) : k \in 1..Len(p)}
Dir(p) == SubSeq(p, 1, Len(p) - 1)
SeqsUpTo(lo, hi) == UNION {[1..k -> Segs] : k \in lo..hi}
Configs == [temp : BOOLEAN, clean : BOOLEAN, filed : BOOLEAN, ext : BOOLEAN, clear : BOOLEAN,
            base : SeqsUpTo(0, MaxBase), name : SeqsUpTo(1, MaxName)]
HeadOf(c) == IF c.temp THEN TempRoot ELSE HeadDir
Tail_(c) == IF c.clean THEN <<"hio", "clean">> ELSE <<"hio">>
\* a name without extension gets ".text" when filed or extensioned; os.path.splitext sees an extension only in a last
\* segment that has a dot which is not leading: the alphabet's plain segments have none, "." and ".." have none either
Named(c) == IF c.filed \/ c.ext
            THEN SubSeq(c.name, 1, Len(c.name) - 1) \o <<c.name[Len(c.name)] \o ".text">>
            ELSE c.name
Full(c) == Norm(HeadOf(c) \o Tail_(c) \o c.base \o Named(c), <<>>)
Escapes(c) == ~Inside(Full(c), HeadOf(c))
Init == /\ cfg \in Configs /\ phase = "new" /\ path = <<>> /\ err = FALSE /\ created = {} /\ deleted = {}
        /\ fs = Prefixes(HeadDir) \cup Prefixes(TempHead)             \* the head directories exist
\* Open: a path that leaves the head directory is refused and leaves nothing behind
Open ==
  /\ phase = "new"
  /\ IF Escapes(cfg)
     THEN err' = TRUE /\ phase' = "closed" /\ UNCHANGED <<fs, path, created, deleted>>
     ELSE LET p == Full(cfg)
              dirs == IF cfg.filed \/ cfg.ext THEN Prefixes(Dir(p)) ELSE Prefixes(p)
              file == IF cfg.filed THEN {p} ELSE {}
              new == (dirs \cup file \cup (IF cfg.temp THEN Prefixes(TempRoot) ELSE {})) \ fs
          IN /\ path' = p /\ fs' = fs \cup new /\ created' = new /\ err' = FALSE /\ phase' = "open"
             /\ UNCHANGED deleted
  /\ UNCHANGED cfg
\* Close(clear): the leaf at .path (file, or directory tree) goes; a temp resource takes its whole temp root with it
Close ==
  /\ phase = "open"
  /\ LET gone == IF ~cfg.clear THEN {}
                 ELSE IF cfg.temp THEN {q \in fs : Inside(q, TempRoot)}
                 ELSE {q \in fs : Inside(q, path)}
     IN fs' = fs \ gone /\ deleted' = gone
  /\ phase' = "closed" /\ UNCHANGED <<cfg, path, err, created>>
Next == Open \/ Close
Spec == Init /\ [][Next]_vars
-----------------------------------------------------------------------------
\* C29
Contained == \A q \in created \cup deleted : Inside(q, HeadOf(cfg))
ClearRemovesOwn == (phase = "closed" /\ cfg.clear /\ ~err) =>
                      /\ path \notin fs
                      /\ cfg.temp => \A q \in fs : ~Inside(q, TempRoot)            \* nothing of a temp resource remains
                      /\ ~cfg.temp => \A q \in deleted : Inside(q, path)            \* nothing outside its own path
NothingOnRefusal == err => created = {} /\ deleted = {} /\ \A q \in fs : ~Inside(q, TempRoot)
====
