---- MODULE NamerTrace ----
\* Batch validation of traces recorded from the real Namer (C->S). One event per public call, logged after it
\* returned or raised: op, args, result class, and both mappings (small projected state, fully logged).
EXTENDS Namer, Json, IOUtils
VARIABLES tid, l
Traces == JsonDeserialize(IOEnv.TRACE_FILE)
tvars == <<vars, tid, l>>
TInit == Init /\ tid \in 1..Len(Traces) /\ l = 1
Ev == Traces[tid][l]
SameMap(f, pairs) == /\ Cardinality(DOMAIN f) = Len(pairs)
                     /\ \A i \in DOMAIN pairs : pairs[i][1] \in DOMAIN f /\ f[pairs[i][1]] = pairs[i][2]
TStep(A) == /\ A
            /\ res' = Ev.res
            /\ SameMap(n2a', Ev.n2a) /\ SameMap(a2n', Ev.a2n)
            /\ l' = l + 1 /\ UNCHANGED tid
TNext == /\ l <= Len(Traces[tid])
         /\ \/ (Ev.op = "add"     /\ TStep(Add(Ev.n, Ev.a)))
            \/ (Ev.op = "rem"     /\ TStep(Rem(Ev.n, Ev.a)))
            \/ (Ev.op = "chgaddr" /\ TStep(ChgAddr(Ev.n, Ev.a)))
            \/ (Ev.op = "chgname" /\ TStep(ChgName(Ev.a, Ev.n)))
            \/ (Ev.op = "clear"   /\ TStep(Clear))
TSpec == TInit /\ [][TNext]_tvars
Progress == PrintT(<<"AT", tid, l>>)
====
