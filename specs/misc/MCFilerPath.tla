---- MODULE MCFilerPath ----
EXTENDS FilerPathGen
MCHead == <<"p", "q", "r", "head">>
MCTempHead == <<"p", "q", "r", "tmp">>
====
