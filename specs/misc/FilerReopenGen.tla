---- MODULE FilerReopenGen ----
EXTENDS FilerReopen, Json
Emit == phase # "closed" \/ PrintT(<<"RO", ToJson([flags |-> flags, steps |-> steps])>>)
====
