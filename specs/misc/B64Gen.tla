---- MODULE B64Gen ----
\* G1 vectors: for every input of the domain, the expected results of every conversion, as sextet/octet lists.
EXTENDS B64, Json
Vec == [s |-> s,
        int |-> [l \in Ls |-> SpecIntToB64(s, l)],
        canon |-> Strip(s),
        b2 |-> SpecCodeB64ToB2(s),
        back |-> [l \in 1..Len(s) |-> SpecCodeB2ToB64(SpecCodeB64ToB2(s), l)],
        nab |-> [l \in 1..Len(s) |-> SpecNab(SpecCodeB64ToB2(s), l)]]
Emit == PrintT(<<"VEC", ToJson(Vec)>>)
====
