---- MODULE LineFrame ----
\* Incremental line framing of hio.core.http.httping.parseLine / parseLeader (properties C13, C15), byte level.
\* Alphabet: "C" = CR, "L" = LF, "o" = any other byte.  A line ends at the EARLIEST terminator in the buffer; when two
\* candidates start at the same byte the first listed (CRLF before CR) wins; a CR that is the last byte of the buffer is
\* held back while CRLF is a candidate, because the next read may bring its LF.
\* The input string is cut into reads in every possible way; after each read the parser takes every complete line.
\* `Algo = "listed"` is the algorithm the code had before the repair (first LISTED terminator found anywhere in the
\* buffer): TLC refutes Confluent for it with the input  L C L.
\* Line length limit (MAX_LINE_SIZE): a line whose content is longer than MaxLine bytes is an error (LineTooLong), and the
\* parser must say so as soon as it is certain - and not before: a held-back CR is not content yet.  `Limit = "len"` is
\* the test the code had before the repair (whole buffer length, held-back CR included): TLC refutes Confluent for it
\* with a line of exactly MaxLine bytes whose CRLF is cut between CR and LF.  MaxLine = 0 means no limit.
EXTENDS Naturals, Sequences, TLC
CONSTANTS Eols,      \* terminators in listing order: subsequence of <<"CRLF", "LF", "CR">>
          MaxLen, Algo, MaxLine, Limit
VARIABLES input, fed, raw, out, cuts, err
vars == <<input, fed, raw, out, cuts, err>>
Sym == {"C", "L", "o"}
Strings(n) == UNION {[1..k -> Sym] : k \in 0..n}
Pat(e) == CASE e = "CRLF" -> <<"C", "L">> [] e = "LF" -> <<"L">> [] e = "CR" -> <<"C">>
MatchAt(b, i, e) == LET p == Pat(e) IN i + Len(p) - 1 <= Len(b) /\ SubSeq(b, i, i + Len(p) - 1) = p
Find(b, e) == IF \E i \in 1..Len(b) : MatchAt(b, i, e)
              THEN CHOOSE i \in 1..Len(b) : MatchAt(b, i, e) /\ \A j \in 1..(i-1) : ~MatchAt(b, j, e)
              ELSE 0
HasEol(e) == \E k \in DOMAIN Eols : Eols[k] = e
\* -> [i |-> index of the terminator (0: none yet), n |-> its length]
FindEol(b) ==
  IF Algo = "listed"
  THEN LET RECURSIVE F(_)
           F(k) == IF k > Len(Eols) THEN [i |-> 0, n |-> 0]
                   ELSE IF Find(b, Eols[k]) > 0 THEN [i |-> Find(b, Eols[k]), n |-> Len(Pat(Eols[k]))] ELSE F(k + 1)
       IN F(1)
  ELSE LET RECURSIVE G(_, _)
           G(k, best) == IF k > Len(Eols) THEN best
                         ELSE LET i == Find(b, Eols[k]) IN
                              IF i > 0 /\ (best.i = 0 \/ i < best.i) THEN G(k + 1, [i |-> i, n |-> Len(Pat(Eols[k])), e |-> Eols[k]])
                              ELSE G(k + 1, best)
           r == G(1, [i |-> 0, n |-> 0, e |-> "-"])
       IN IF r.i > 0 /\ r.e = "CR" /\ HasEol("CRLF") /\ r.i = Len(b) THEN [i |-> 0, n |-> 0]   \* hold the trailing CR back
          ELSE [i |-> r.i, n |-> r.n]
Held(b) == IF HasEol("CRLF") /\ b # <<>> /\ b[Len(b)] = "C" THEN 1 ELSE 0     \* a trailing CR may still become a CRLF
Pending(b) == MaxLine > 0 /\ (IF Limit = "len" THEN Len(b) ELSE Len(b) - Held(b)) > MaxLine   \* no terminator yet: too long already?
RECURSIVE Drain(_, _)        \* take complete lines while there are any: [out, raw, err]
Drain(b, acc) == LET f == FindEol(b) IN
                 IF f.i = 0 THEN [out |-> acc, raw |-> b, err |-> Pending(b)]
                 ELSE IF MaxLine > 0 /\ f.i - 1 > MaxLine THEN [out |-> acc, raw |-> b, err |-> TRUE]
                 ELSE Drain(SubSeq(b, f.i + f.n, Len(b)), Append(acc, SubSeq(b, 1, f.i - 1)))
Init == /\ input \in Strings(MaxLen) /\ fed = 0 /\ raw = <<>> /\ out = <<>> /\ cuts = <<>> /\ err = FALSE
Feed(k) == /\ fed + k <= Len(input) /\ ~err                      \* the parser is dead after an error
           /\ LET d == Drain(raw \o SubSeq(input, fed + 1, fed + k), out) IN out' = d.out /\ raw' = d.raw /\ err' = d.err
           /\ fed' = fed + k /\ cuts' = Append(cuts, k) /\ UNCHANGED input
Next == \E k \in 1..MaxLen : Feed(k)
Spec == Init /\ [][Next]_vars
-----------------------------------------------------------------------------
Whole == Drain(input, <<>>)
\* C13 / C15 at the byte level: the lines delivered do not depend on how the bytes were split into reads
Confluent == /\ err => (Whole.err /\ out = Whole.out)
             /\ (fed = Len(input) /\ ~err) => (~Whole.err /\ out = Whole.out /\ raw = Whole.raw)
\* and what is delivered is always a prefix of what one read would deliver (no line is delivered early and wrongly)
PrefixOfWhole == Len(out) <= Len(Whole.out) /\ \A i \in DOMAIN out : out[i] = Whole.out[i]
====
