---- MODULE LineFrameGen ----
EXTENDS LineFrame, Json
Dump == (fed = Len(input)) => PrintT(<<"LF", ToJson([input |-> input, cuts |-> cuts, out |-> out, raw |-> raw])>>)
====
