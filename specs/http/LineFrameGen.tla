---- MODULE LineFrameGen ----
EXTENDS LineFrame, Json
Dump == (fed = Len(input) \/ err) => PrintT(<<"LF", ToJson([input |-> input, cuts |-> cuts, out |-> out, raw |-> raw, err |-> err])>>)
====
