---- MODULE WsgiGen ----
EXTENDS Wsgi, Json
Emit == reqs = <<>> \/ PrintT(<<"WS", ToJson([reqs |-> reqs, out |-> out, pieces |-> [i \in DOMAIN reqs |-> Pieces(reqs[i].a)],
                                                 declared |-> [i \in DOMAIN reqs |-> Declared(reqs[i].a)]])>>)
====
