---- MODULE ReqReuse ----
\* Several requests over ONE reused hio.core.http.clienting.Requester (Client.request -> Requester.rebuild), property C14:
\* every request is recovered as it was sent, whatever went over the same Requester before - nothing of an earlier
\* request (its JSON data, form fields, raw body, headers, query arguments) may leak into a later one.
EXTENDS Naturals, Sequences, FiniteSets, TLC
CONSTANTS Classes, Methods, BodyKinds, FirstAway, NextAway, MaxReqs
VARIABLES sent, got
vars == <<sent, got>>
Default == "plain"
Fields == {"seg", "qkey", "qval", "hval"}
Bases == {[method |-> m, seg |-> Default, qkey |-> Default, qval |-> Default, hval |-> Default, body |-> b] :
             m \in Methods, b \in BodyKinds}
RECURSIVE Away(_)            \* requests with at most n fields away from the default (built, not filtered)
Away(n) == IF n = 0 THEN Bases
           ELSE LET S == Away(n - 1) IN S \cup {[r EXCEPT ![f] = c] : r \in S, f \in Fields, c \in Classes}
ReqsAway(n) == {r \in Away(n) : r.method = "GET" => r.body = "none"}
DontCare(r) == r.seg \in {"empty", "question", "hash"} \/ r.qkey = "empty" \/ r.hval \in {"space", "empty"}
Init == sent = <<>> /\ got = <<>>
Send(r) == /\ Len(sent) < MaxReqs /\ got = sent           \* one request at a time over the connection
           /\ sent' = Append(sent, r) /\ UNCHANGED got
Deliver == /\ Len(got) < Len(sent)
           /\ got' = Append(got, sent[Len(got) + 1]) /\ UNCHANGED sent     \* the channel is the identity, with no memory
Next == (\E r \in (IF sent = <<>> THEN ReqsAway(FirstAway) ELSE ReqsAway(NextAway)) : Send(r)) \/ Deliver
Spec == Init /\ [][Next]_vars
InOrderIdentity == Len(got) <= Len(sent) /\ \A i \in DOMAIN got : got[i] = sent[i]
====
