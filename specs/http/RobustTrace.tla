---- MODULE RobustTrace ----
\* C->S: recorded executions of real http servers / clients fed with malformed input; an event whose servicing raised has
\* out = "raised", which no action of Robust allows, so the trace is rejected at that event.
EXTENDS Robust, Json, IOUtils
VARIABLES tid, l
Traces == JsonDeserialize(IOEnv.TRACE_FILE)
tvars == <<vars, tid, l>>
TInit == Init /\ tid \in 1..Len(Traces) /\ l = 1
Ev == Traces[tid][l]
TNext == /\ l <= Len(Traces[tid]) /\ Input(Ev.c, Ev.cls, Ev.out) /\ l' = l + 1 /\ UNCHANGED tid
TSpec == TInit /\ [][TNext]_tvars
Progress == PrintT(<<"AT", tid, l>>)
====
