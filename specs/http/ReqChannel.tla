---- MODULE ReqChannel ----
\* The request channel client -> wire -> server of hio.core.http (property C14): what Requester.build() serialises must
\* be what Requestant.parse() + Server.buildEnviron() recover.  The channel is specified as the identity on
\* (method, path, query arguments, header values, body); the model contributes the input space: every field drawn from
\* character classes that matter to the encodings (unreserved, space, & = + % ; / ? #, latin-1, non-latin-1, empty),
\* with up to two fields away from the default at a time (all pairs of fields x all pairs of classes).
EXTENDS Naturals, Sequences, FiniteSets, TLC
CONSTANTS Classes, Methods, BodyKinds, MaxAway,
          PathQueries    \* a query string already in the path the application passes ("none", or a kind of it): it is merged with the arguments     \* MaxAway: how many fields may differ from the default at once
VARIABLES req, got
vars == <<req, got>>
Default == "plain"
Fields == {"seg", "qkey", "qval", "hval"}
Reqs == {r \in [method : Methods, seg : Classes, qkey : Classes, qval : Classes, hval : Classes, body : BodyKinds, pq : PathQueries] :
            Cardinality({f \in Fields : r[f] # Default}) <= MaxAway}
\* cases the property does not decide: an empty path segment or key collapses in any URL syntax; "?" and "#" inside a
\* path delimit query and fragment by design; header values are trimmed of blanks by HTTP itself
DontCare(r) == r.seg \in {"empty", "question", "hash"} \/ r.qkey = "empty" \/ r.hval \in {"space", "empty"}
Unsent == [method |-> "-", seg |-> "-", qkey |-> "-", qval |-> "-", hval |-> "-", body |-> "-", pq |-> "-"]
Init == req \in Reqs /\ got = Unsent
Deliver == got = Unsent /\ got' = req /\ UNCHANGED req          \* the channel is the identity
Next == Deliver
Spec == Init /\ [][Next]_vars
Identity == got # Unsent => got = req
====
