---- MODULE SseGen ----
EXTENDS Sse, Json
Emit == pos # "sealed" \/ PrintT(<<"SSE", ToJson([lines |-> [i \in DOMAIN lines |-> [text |-> Text(lines[i].k), t |-> lines[i].t]],
                                                    events |-> st.events, leid |-> st.leid, retry |-> st.retry])>>)
====
