---- MODULE Wsgi ----
\* Framing, order and connection handling of WSGI responses on one connection of hio.core.http.serving.Server
\* (property C18).  A behaviour is a sequence of requests (version, Connection header) each answered by an application
\* behaviour (declared Content-Length or not, body pieces).  For each request the model gives the framing of the
\* response, the body that must arrive, and whether the server closes the connection after it.
EXTENDS Integers, Sequences, TLC
CONSTANTS ReqKinds,    \* subset of {"11", "11close", "10", "10ka"}
          AppKinds,    \* application behaviours, see Body/Declared below
          MaxReqs
VARIABLES reqs, out, closed
vars == <<reqs, out, closed>>
Persistent(r) == r = "11" \/ r = "10ka"
Chunkable(r) == r \in {"11", "11close"}
\* application behaviours: body pieces (lengths; 0 = an empty piece) and declared Content-Length (-1: none)
Pieces(a) == CASE a = "cl" -> <<3, 2>> [] a = "cl0" -> <<>> [] a = "clover" -> <<3, 4>> [] a = "nocl" -> <<3, 2>>
               [] a = "noclempty" -> <<0, 3, 0, 0, 2, 0>> [] a = "noclnone" -> <<>> [] a = "clempty" -> <<0, 5, 0>>
Declared(a) == CASE a = "cl" -> 5 [] a = "cl0" -> 0 [] a = "clover" -> 5 [] a = "clempty" -> 5 [] OTHER -> -1
RECURSIVE Sum(_)
Sum(q) == IF q = <<>> THEN 0 ELSE Head(q) + Sum(Tail(q))
Framing(r, a) == IF Declared(a) >= 0 THEN "cl" ELSE IF Chunkable(r) THEN "chunked" ELSE "close"
BodyLen(a) == IF Declared(a) >= 0 /\ Sum(Pieces(a)) > Declared(a) THEN Declared(a) ELSE Sum(Pieces(a))   \* never beyond the declared length
CloseAfter(r, a) == ~Persistent(r) \/ Framing(r, a) = "close"     \* a response delimited by close ends the connection
Init == reqs = <<>> /\ out = <<>> /\ closed = FALSE
Request(r, a) == /\ ~closed /\ Len(reqs) < MaxReqs
                 /\ reqs' = Append(reqs, [r |-> r, a |-> a])
                 /\ out' = Append(out, [framing |-> Framing(r, a), body |-> BodyLen(a), close |-> CloseAfter(r, a), i |-> Len(reqs) + 1])
                 /\ closed' = CloseAfter(r, a)
Next == \E r \in ReqKinds, a \in AppKinds : Request(r, a)
Spec == Init /\ [][Next]_vars
-----------------------------------------------------------------------------
\* C18
SelfDelimiting == \A i \in DOMAIN out : out[i].framing = "close" => (out[i].close /\ i = Len(out))
InOrder == \A i \in DOMAIN out : out[i].i = i
BodyWithinCL == \A i \in DOMAIN out : Declared(reqs[i].a) >= 0 => out[i].body <= Declared(reqs[i].a)
CloseIffNotPersistent == \A i \in DOMAIN out : (out[i].framing # "close") => (out[i].close <=> ~Persistent(reqs[i].r))
NothingAfterClose == \A i \in DOMAIN out : out[i].close => i = Len(out)
====
