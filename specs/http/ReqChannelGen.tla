---- MODULE ReqChannelGen ----
EXTENDS ReqChannel, Json
Emit == got = Unsent \/ PrintT(<<"RQ", ToJson([req |-> req, dontcare |-> DontCare(req)])>>)
====
