---- MODULE ReqReuseGen ----
EXTENDS ReqReuse, Json
Emit == Len(got) < MaxReqs \/ PrintT(<<"RS", ToJson([reqs |-> sent, dontcare |-> [i \in DOMAIN sent |-> DontCare(sent[i])]])>>)
====
