---- MODULE ClientQueueGen ----
EXTENDS ClientQueue, Json
Emit == ~(Done /\ OkQueue) \/ PrintT(<<"CQ", ToJson([queue |-> queue, responses |-> responses, wire |-> wire])>>)
====
