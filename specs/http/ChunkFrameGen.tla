---- MODULE ChunkFrameGen ----
EXTENDS ChunkFrame, Json
Emit == PrintT(<<"CH", ToJson(IF Mode = "coding" THEN [case |-> c] ELSE [s |-> c, class |-> Class(c), val |-> IF Class(c) = "accept" THEN Val(c, 0) ELSE 0])>>)
====
