---- MODULE MessageGen ----
EXTENDS Message, Json
Emit == ~done \/ PrintT(<<"MSG", ToJson([i \in DOMAIN pipe |-> [tokens |-> Tokens(pipe[i]), expect |-> Expect(pipe[i]), m |-> pipe[i]]])>>)
====
