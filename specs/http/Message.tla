---- MODULE Message ----
\* Well-formed HTTP/1.x messages as the parsers of hio.core.http see them (property C13, message level), with the
\* abstract result a parser must deliver for each: start line, header fields, body, trailers, persistence decision,
\* no error.  A message is a record of grammar choices; Tokens(m) is its wire form as a sequence of tokens whose
\* concatenation is the byte string; Expect(m) is the parse result.  TLC enumerates pipelines of messages; the harness
\* concretises them and feeds them to the real Requestant / Respondent whole and in fragments.
EXTENDS Naturals, Sequences, TLC
CONSTANTS Kind,        \* "req" | "resp"
          MaxPipe,     \* messages per connection
          Bodies,      \* body kinds to use
          Restrict     \* TRUE: fewer header/method variants (for pipelines)
VARIABLES pipe, done
vars == <<pipe, done>>
Vers == {"1.0", "1.1"}
Eol(m) == IF m.eol = "CRLF" THEN "\r\n" ELSE "\n"
BodyBytes(m) == CASE m.body \in {"none", "cl0"} -> ""
                  [] m.body \in {"cl", "close"} -> "a\r\nb\nc: d\r\n\r\nzz"        \* body bytes that look like lines and headers
                  [] m.body = "ch1" -> "hello"
                  [] m.body = "ch2x" -> "he\r\nllo w"
                  [] m.body = "ch2t" -> "0\r\n\r\nXY"
                  [] m.body = "ch0" -> ""
Len_(s) == CASE s = "" -> 0 [] s = "a\r\nb\nc: d\r\n\r\nzz" -> 15 [] s = "hello" -> 5 [] s = "he\r\nllo w" -> 9 [] s = "0\r\n\r\nXY" -> 7
Dec(n) == CASE n = 0 -> "0" [] n = 15 -> "15" [] n = 5 -> "5" [] n = 9 -> "9" [] n = 7 -> "7"
Reason(st) == CASE st = "200" -> "OK" [] st = "204" -> "No Content" [] st = "304" -> "Not Modified"
Start(m) == IF Kind = "req" THEN m.method \o " /p/q?x=1 HTTP/" \o m.ver ELSE "HTTP/" \o m.ver \o " " \o m.status \o " " \o Reason(m.status)
\* interim 100 Continue responses (with or without header fields) may precede a response
Pre(m) == CASE m.pre = "none" -> <<>>
            [] m.pre = "100" -> <<"HTTP/1.1 100 Continue", Eol(m), Eol(m)>>
            [] m.pre = "100h" -> <<"HTTP/1.1 100 Continue", Eol(m), "X-Interim: 1", Eol(m), Eol(m), "HTTP/1.1 100 Continue", Eol(m), Eol(m)>>
NoBodyStatus(m) == Kind = "resp" /\ m.status \in {"204", "304"}
ConnHdr(m) == IF m.conn = "none" THEN <<>> ELSE <<"Connection: " \o m.conn, Eol(m)>>
Extra(m) == IF m.hdrs = 0 THEN <<>> ELSE <<"X-One: 1", Eol(m), "x-two: a: b ;c", Eol(m)>>
Framing(m) == CASE m.body \in {"none", "close"} -> <<>>
                [] m.body \in {"cl0", "cl"} -> <<"Content-Length: " \o Dec(Len_(BodyBytes(m))), Eol(m)>>
                [] OTHER -> <<"Transfer-Encoding: chunked", Eol(m)>>
\* chunked coding: chunk-size lines and chunk ends are CRLF (the only form the decoder takes), the trailer follows m.eol
Chunks(m) == CASE m.body = "ch1" -> <<"5", "\r\n", "hello", "\r\n", "0", "\r\n", Eol(m)>>
               [] m.body = "ch2x" -> <<"4;ext=1;flag", "\r\n", "he\r\n", "\r\n", "5 ; q=\"z\"", "\r\n", "llo w", "\r\n", "000", "\r\n", Eol(m)>>
               [] m.body = "ch2t" -> <<"3", "\r\n", "0\r\n", "\r\n", "4", "\r\n", "\r\nXY", "\r\n", "0", "\r\n", "T-One: v1", Eol(m), "T-Two: v2", Eol(m), Eol(m)>>
               [] m.body = "ch0" -> <<"0", "\r\n", Eol(m)>>
               [] OTHER -> <<>>
Tokens(m) == Pre(m) \o <<Start(m), Eol(m), "Host: h", Eol(m)>> \o ConnHdr(m) \o Extra(m) \o Framing(m) \o <<Eol(m)>>
             \o (IF m.body \in {"cl", "close"} THEN <<BodyBytes(m)>> ELSE Chunks(m))
IsChunked(m) == m.body \in {"ch1", "ch2x", "ch2t", "ch0"}
\* persistence decision (checkPersisted of Requestant / Respondent)
Persisted(m) == IF m.ver = "1.1"
                THEN m.conn # "close" /\ ~(Kind = "resp" /\ m.body \in {"none", "close"} /\ ~NoBodyStatus(m))  \* no length and not chunked: until close
                ELSE m.conn = "keep-alive"
Expect(m) == [ver |-> m.ver, body |-> BodyBytes(m), chunked |-> IsChunked(m),
              nhdr |-> 1 + (IF m.conn = "none" THEN 0 ELSE 1) + m.hdrs + (IF m.body \in {"none", "close"} THEN 0 ELSE 1),
              trails |-> (m.body = "ch2t"), parms |-> (m.body = "ch2x"), persisted |-> Persisted(m), errored |-> FALSE,
              untilclose |-> (Kind = "resp" /\ m.body \in {"none", "close"} /\ ~NoBodyStatus(m))]
Msgs == [method : (IF Kind = "req" THEN (IF Restrict THEN {"POST"} ELSE {"GET", "POST"}) ELSE {"-"}), ver : Vers, eol : {"CRLF", "LF"},
         conn : (IF Restrict THEN {"none", "close"} ELSE {"none", "close", "keep-alive"}), hdrs : (IF Restrict THEN {0} ELSE {0, 2}),
         body : Bodies,
         status : (IF Kind = "resp" /\ ~Restrict THEN {"200", "204", "304"} ELSE {"200"}),
         pre : (IF Kind = "resp" THEN (IF Restrict THEN {"none", "100"} ELSE {"none", "100", "100h"}) ELSE {"none"})]
\* a message read until the connection closes can only be the last one of a pipeline
\* a 204 / 304 response has no body whatever its header fields say: only generated without one
OkMsg(m) == m.status = "200" \/ m.body = "none"
OkPipe(p) == (\A i \in 1..(Len(p) - 1) : ~Expect(p[i]).untilclose) /\ (\A i \in DOMAIN p : OkMsg(p[i]))
Init == pipe \in {p \in UNION {[1..k -> Msgs] : k \in 1..MaxPipe} : OkPipe(p)} /\ done = FALSE
Next == ~done /\ done' = TRUE /\ UNCHANGED pipe
Spec == Init /\ [][Next]_vars
\* sanity of the grammar: a declared length is the body's length; chunk sizes add up to the body
LengthsAgree == \A i \in DOMAIN pipe : LET m == pipe[i] IN
                   (m.body = "ch1" => Len_(BodyBytes(m)) = 5) /\ (m.body = "ch2x" => Len_(BodyBytes(m)) = 4 + 5)
                   /\ (m.body = "ch2t" => Len_(BodyBytes(m)) = 3 + 4)
====
