---- MODULE Idle ----
\* Idle time-out of HTTP server connections against virtual tyme (property C12).
\* One connection, accepted at the first service.  Time advances one tick between two calls of Server.service(); before
\* each call the client may have sent nothing, some bytes of an unfinished request, or a complete persistent request
\* (after which the connection is persistent: answered, kept open, never timed out).  A service at tyme t
\*   1. closes the connection if it is not persistent and t - last >= T   (last = tyme of the last traffic),
\*   2. otherwise reads what arrived (traffic: last := t) and answers a complete request (traffic as well).
\* The server may be wound onto another Tymist between two services (Server.wind): virtual tyme then continues from
\* another base, earlier or later, and the idle period of every open connection starts anew at the new tymist's tyme.
\* `tyme` counts services; the tymist reads tyme + base.
EXTENDS Integers, Sequences, TLC
CONSTANTS T,          \* time-out in ticks (> 0)
          MaxTyme,
          Bases,      \* tyme bases a Tymist may be wound to (integers, negative = earlier)
          Pats        \* answers of the application to a non persistent request: sequences over {"p", "g"}, one element per
                      \* service ("p": a piece of the body is written = traffic, "g": nothing yet), or <<"stall">>: nothing, for ever,
                      \* or <<"blocked">>: pieces for ever, but the peer stopped reading when it sent its request: every send()
                      \* of the server would block, no byte leaves (an attempt to send is not traffic)
VARIABLES tyme, state, last, h, pat, base
vars == <<tyme, state, last, h, pat, base>>
Init == tyme = 0 /\ state = "new" /\ last = 0 /\ h = <<>> /\ pat = <<>> /\ base = 0
Log(ev, idle) == h' = Append(h, [ev |-> ev, tyme |-> tyme, state |-> state', idle |-> idle])
\* a complete NON persistent request (HTTP/1.1 with Connection: close) arrives: the application answers according to
\* pattern q; the first element is served in the same service call
Silent(q) == q \in {<<"stall">>, <<"blocked">>}    \* no traffic ever: nothing is written, or nothing of it leaves (the peer stopped reading)
\* <<"slow">>: pieces for ever to a peer that reads slowly: at every service the kernel takes a few bytes of what is queued,
\* never all of it - bytes leaving are traffic, however few
Answer(q, now) == IF Silent(q) \/ q = <<"slow">> THEN pat' = q /\ state' = "answering" /\ last' = now             \* request bytes were traffic
                  ELSE IF q = <<>> THEN pat' = <<>> /\ state' = "ended" /\ last' = now                \* empty body: head + end
                  ELSE pat' = Tail(q) /\ state' = "answering" /\ last' = now
Stream(now, lst) == \* one service of a connection whose non persistent request is being answered
  IF now - lst >= T THEN state' = "closed" /\ last' = lst /\ UNCHANGED pat
  ELSE IF Silent(pat) THEN last' = lst /\ UNCHANGED <<state, pat>>
  ELSE IF pat = <<"slow">> THEN last' = now /\ UNCHANGED <<state, pat>>
  ELSE IF pat = <<>> THEN state' = "ended" /\ last' = now /\ UNCHANGED pat                            \* the end of the body is written
  ELSE /\ pat' = Tail(pat) /\ UNCHANGED state /\ last' = (IF Head(pat) = "p" THEN now ELSE lst)
\* one call of service() at the current tyme, `ev` is what happened since the previous call: what the client did, or
\* <<"wind", b>>: the server was wound onto a tymist that reads tyme + b (the client did nothing)
Service(ev) ==
  /\ tyme < MaxTyme
  /\ LET w == ev[1] = "wind"
         b == IF w THEN ev[2] ELSE base
         now == tyme + b
         lst == IF w /\ state # "new" THEN now ELSE last          \* a wind restarts the idle period at the new tymist's tyme
         e == IF w THEN <<"none">> ELSE ev IN
     /\ base' = b
     /\ IF state = "new" THEN                                      \* accepted now: the idle period starts
           IF e[1] = "reqclose" THEN Answer(e[2], now)
           ELSE state' = (IF e[1] = "request" THEN "persistent" ELSE "open") /\ last' = now /\ UNCHANGED pat
        ELSE IF state = "open" THEN
           IF now - lst >= T THEN state' = "closed" /\ last' = lst /\ UNCHANGED pat    \* idle for T: closed, whatever arrives now
           ELSE IF e[1] = "none" THEN last' = lst /\ UNCHANGED <<state, pat>>
           ELSE IF e[1] = "reqclose" THEN Answer(e[2], now)
           ELSE state' = (IF e[1] = "request" THEN "persistent" ELSE "open") /\ last' = now /\ UNCHANGED pat
        ELSE IF state = "answering" THEN Stream(now, lst)
        ELSE IF state = "ended" THEN state' = "closed" /\ last' = lst /\ UNCHANGED pat   \* answer complete, not persistent: closed
        ELSE last' = lst /\ UNCHANGED <<state, pat>>               \* persistent: never timed out; closed: stays closed
     /\ Log(ev, now - lst)
  /\ tyme' = tyme + 1
Evs == {<<"none">>, <<"bytes">>, <<"request">>} \cup {<<"reqclose", q>> : q \in Pats} \cup {<<"wind", b>> : b \in Bases}
Winds == {i \in DOMAIN h : h[i].ev[1] = "wind"}
\* once a request is being answered the client is silent (the property is about the server's side then)
Next == \E ev \in Evs : /\ (state \in {"answering", "ended", "persistent", "closed"} => ev[1] \in {"none", "wind"})
                        /\ (ev[1] = "wind" => (Winds = {} /\ state \in {"open", "answering", "persistent"} /\ ev[2] # base))
                        /\ Service(ev)
Spec == Init /\ [][Next]_vars
-----------------------------------------------------------------------------
\* C12
NotPersistent == state \in {"open", "answering"}
Idle == h'[Len(h')].idle             \* how long the connection had been without traffic at the service of this step
ClosedOnlyIfIdle == [][(NotPersistent /\ state' = "closed") => Idle >= T]_vars
IdleGetsClosed == [][(NotPersistent /\ Idle >= T) => state' = "closed"]_vars
TrafficKeepsOpen == [][(NotPersistent /\ Idle < T) => state' # "closed"]_vars
PersistentStays == [][state = "persistent" => state' = "persistent"]_vars
====
