---- MODULE Idle ----
\* Idle time-out of HTTP server connections against virtual tyme (property C12).
\* One connection, accepted at the first service.  Time advances one tick between two calls of Server.service(); before
\* each call the client may have sent nothing, some bytes of an unfinished request, or a complete persistent request
\* (after which the connection is persistent: answered, kept open, never timed out).  A service at tyme t
\*   1. closes the connection if it is not persistent and t - last >= T   (last = tyme of the last traffic),
\*   2. otherwise reads what arrived (traffic: last := t) and answers a complete request (traffic as well).
EXTENDS Naturals, Sequences, TLC
CONSTANTS T,          \* time-out in ticks (> 0)
          MaxTyme,
          Pats        \* answers of the application to a non persistent request: sequences over {"p", "g"}, one element per
                      \* service ("p": a piece of the body is written = traffic, "g": nothing yet), or <<"stall">>: nothing, for ever
VARIABLES tyme, state, last, h, pat
vars == <<tyme, state, last, h, pat>>
Init == tyme = 0 /\ state = "new" /\ last = 0 /\ h = <<>> /\ pat = <<>>
Log(ev) == h' = Append(h, [ev |-> ev, tyme |-> tyme, state |-> state'])
\* a complete NON persistent request (HTTP/1.1 with Connection: close) arrives: the application answers according to
\* pattern q; the first element is served in the same service call
Answer(q) == IF q = <<"stall">> THEN pat' = q /\ state' = "answering" /\ last' = tyme                  \* request bytes were traffic
             ELSE IF q = <<>> THEN pat' = <<>> /\ state' = "ended" /\ last' = tyme                     \* empty body: head + end
             ELSE pat' = Tail(q) /\ state' = (IF Tail(q) = <<>> /\ FALSE THEN "ended" ELSE "answering") /\ last' = tyme
Stream == \* one service of a connection whose non persistent request is being answered
  IF tyme - last >= T THEN state' = "closed" /\ UNCHANGED <<last, pat>>
  ELSE IF pat = <<"stall">> THEN UNCHANGED <<state, last, pat>>
  ELSE IF pat = <<>> THEN state' = "ended" /\ last' = tyme /\ UNCHANGED pat                            \* the end of the body is written
  ELSE /\ pat' = Tail(pat) /\ UNCHANGED state /\ last' = (IF Head(pat) = "p" THEN tyme ELSE last)
\* one call of service() at the current tyme, `ev` is what the client did since the previous call
Service(ev) ==
  /\ tyme < MaxTyme
  /\ IF state = "new" THEN                                      \* accepted now: the idle period starts
        IF ev[1] = "reqclose" THEN Answer(ev[2])
        ELSE state' = (IF ev[1] = "request" THEN "persistent" ELSE "open") /\ last' = tyme /\ UNCHANGED pat
     ELSE IF state = "open" THEN
        IF tyme - last >= T THEN state' = "closed" /\ UNCHANGED <<last, pat>>    \* idle for T: closed, whatever arrives now
        ELSE IF ev[1] = "none" THEN UNCHANGED <<state, last, pat>>
        ELSE IF ev[1] = "reqclose" THEN Answer(ev[2])
        ELSE state' = (IF ev[1] = "request" THEN "persistent" ELSE "open") /\ last' = tyme /\ UNCHANGED pat
     ELSE IF state = "answering" THEN Stream
     ELSE IF state = "ended" THEN state' = "closed" /\ UNCHANGED <<last, pat>>   \* answer complete, not persistent: closed
     ELSE UNCHANGED <<state, last, pat>>                       \* persistent: never timed out; closed: stays closed
  /\ tyme' = tyme + 1 /\ Log(ev)
Evs == {<<"none">>, <<"bytes">>, <<"request">>} \cup {<<"reqclose", q>> : q \in Pats}
\* once a request is being answered the client is silent (the property is about the server's side then)
Next == \E ev \in Evs : (state \in {"answering", "ended", "persistent", "closed"} => ev = <<"none">>) /\ Service(ev)
Spec == Init /\ [][Next]_vars
-----------------------------------------------------------------------------
\* C12
NotPersistent == state \in {"open", "answering"}
ClosedOnlyIfIdle == [][(NotPersistent /\ state' = "closed") => tyme - last >= T]_vars
IdleGetsClosed == [][(NotPersistent /\ tyme - last >= T) => state' = "closed"]_vars
TrafficKeepsOpen == [][(NotPersistent /\ tyme - last < T) => state' # "closed"]_vars
PersistentStays == [][state = "persistent" => state' = "persistent"]_vars
====
