---- MODULE Idle ----
\* Idle time-out of HTTP server connections against virtual tyme (property C12).
\* One connection, accepted at the first service.  Time advances one tick between two calls of Server.service(); before
\* each call the client may have sent nothing, some bytes of an unfinished request, or a complete persistent request
\* (after which the connection is persistent: answered, kept open, never timed out).  A service at tyme t
\*   1. closes the connection if it is not persistent and t - last >= T   (last = tyme of the last traffic),
\*   2. otherwise reads what arrived (traffic: last := t) and answers a complete request (traffic as well).
EXTENDS Naturals, Sequences, TLC
CONSTANTS T,          \* time-out in ticks (> 0)
          MaxTyme
VARIABLES tyme, state, last, h
vars == <<tyme, state, last, h>>
Init == tyme = 0 /\ state = "new" /\ last = 0 /\ h = <<>>
Log(ev) == h' = Append(h, [ev |-> ev, tyme |-> tyme, state |-> state'])
\* one call of service() at the current tyme, `ev` is what the client did since the previous call
Service(ev) ==
  /\ tyme < MaxTyme
  /\ IF state = "new" THEN                                      \* accepted now: the idle period starts
        /\ state' = (IF ev = "request" THEN "persistent" ELSE "open") /\ last' = tyme
     ELSE IF state = "open" THEN
        IF tyme - last >= T THEN state' = "closed" /\ UNCHANGED last          \* idle for T: closed, whatever arrives now
        ELSE IF ev = "none" THEN UNCHANGED <<state, last>>
        ELSE state' = (IF ev = "request" THEN "persistent" ELSE "open") /\ last' = tyme
     ELSE UNCHANGED <<state, last>>                            \* persistent: never timed out; closed: stays closed
  /\ tyme' = tyme + 1 /\ Log(ev)
Next == \E ev \in {"none", "bytes", "request"} : Service(ev)
Spec == Init /\ [][Next]_vars
-----------------------------------------------------------------------------
\* C12
ClosedOnlyIfIdle == [][(state = "open" /\ state' = "closed") => tyme - last >= T]_vars
IdleGetsClosed == [][(state = "open" /\ tyme - last >= T) => state' = "closed"]_vars
TrafficKeepsOpen == [][(state = "open" /\ tyme - last < T) => state' # "closed"]_vars
PersistentStays == [][state = "persistent" => state' = "persistent"]_vars
====
