---- MODULE Robust ----
\* What servicing an HTTP server or client may do with arbitrary peer bytes (property C16).
\* Two connections.  An event is: the peer of connection c sends input of class cls (a well formed request, or one of
\* the named malformations, or random bytes), the endpoint is serviced, and the outcome on c is observed:
\*   "served" (a 2xx answer), "error" (a 4xx/5xx answer or the response's error flag), "closed", "pending" (the
\*   endpoint waits for more bytes).  Servicing never raises; a well formed request on an open connection is always
\*   served, whatever happened on the other connection before.
EXTENDS Naturals, Sequences, TLC
CONSTANTS Conns, Classes, MaxSteps
VARIABLES open, dirty, raised, h
vars == <<open, dirty, raised, h>>
Outcomes == {"served", "error", "closed", "pending"}
Init == open = [c \in Conns |-> TRUE] /\ dirty = [c \in Conns |-> FALSE] /\ raised = FALSE /\ h = <<>>
\* a connection that has received malformed or incomplete bytes is "dirty": what a later well formed request on it
\* gets is not prescribed (its bytes follow garbage); a clean open connection must be served
Allowed(c, cls) == IF cls = "valid" /\ ~dirty[c] THEN {"served"}
                   ELSE IF cls = "valid10" /\ ~dirty[c] THEN {"served", "closed"}    \* HTTP/1.0: closed after (or, BareServer, instead of) the answer
                   \* client side: a response that breaks the framing rules outright (chunk size that is not hexadecimal, chunk
                   \* data not followed by CRLF, a line beyond the length limit) is reported through the response's error flag
                   ELSE IF cls \in {"rbadchunk", "rchunkend", "rhugeline"} /\ ~dirty[c] THEN {"error"}
                   ELSE Outcomes
Input(c, cls, out) ==
  /\ open[c] /\ out \in Allowed(c, cls)
  /\ open' = [open EXCEPT ![c] = out # "closed"]
  /\ dirty' = [dirty EXCEPT ![c] = @ \/ (cls # "valid" /\ out \in {"pending", "served", "error"})]
  /\ UNCHANGED raised
  /\ h' = Append(h, [c |-> c, cls |-> cls, out |-> out])
Next == Len(h) < MaxSteps /\ \E c \in Conns, cls \in Classes, out \in Outcomes : Input(c, cls, out)
Spec == Init /\ [][Next]_vars
NeverRaised == raised = FALSE
SiblingServed == [][\A c \in Conns : (Len(h') > Len(h) /\ h'[Len(h')].c = c /\ h'[Len(h')].cls = "valid" /\ ~dirty[c] /\ open[c])
                                      => h'[Len(h')].out = "served"]_vars
====
