---- MODULE ChunkFrame ----
\* Chunked transfer coding as hio.core.http.httping.packChunk / parseChunk implement it (property C17).
\* (i)  coding: a body (bytes 1..n), a division into chunks, chunk extensions and trailer fields are encoded into the
\*      token sequence  size-line data CRLF ... last-chunk trailers CRLF  and decoded back by the receiver's state machine
\*      (size line -> data -> chunk end -> ... -> last chunk -> trailer lines -> end); RoundTrip says decoding gives exactly
\*      that body and those trailers, for every division.
\* (ii) chunk-size strings over a small alphabet are classified: 1*HEX must be accepted with its value; anything else
\*      (sign, 0x, underscore, empty, inner blank) must be rejected; hex digits with surrounding blanks are a don't-care.
EXTENDS Naturals, Sequences, FiniteSets, TLC
CONSTANTS MaxBody, MaxTrailers, SizeSyms, MaxSizeLen, Mode   \* Mode: "coding" | "sizes"
VARIABLES c
vars == <<c>>
\* ---- (i)
RECURSIVE Divisions(_)
Divisions(n) == IF n = 0 THEN {<<>>} ELSE UNION {{<<k>> \o d : d \in Divisions(n - k)} : k \in 1..n}
Body(n) == [i \in 1..n |-> i]
RECURSIVE Enc(_, _, _)
Enc(b, div, exts) == IF div = <<>> THEN <<>>
                     ELSE <<[t |-> "size", n |-> Head(div), ext |-> Head(exts)], [t |-> "data", d |-> SubSeq(b, 1, Head(div))], [t |-> "crlf"]>>
                          \o Enc(SubSeq(b, Head(div) + 1, Len(b)), Tail(div), Tail(exts))
Encode(cs) == Enc(Body(cs.n), cs.div, cs.exts) \o <<[t |-> "size", n |-> 0, ext |-> cs.lastext]>>
              \o [i \in 1..cs.trailers |-> [t |-> "trailer", k |-> i]] \o <<[t |-> "crlf"]>>
\* the receiver: [st, body, trails, want, err]
Step(r, tok) ==
  IF r.err THEN r
  ELSE IF r.st = "size" THEN
         IF tok.t # "size" THEN [r EXCEPT !.err = TRUE]
         ELSE IF tok.n = 0 THEN [r EXCEPT !.st = "trailers"] ELSE [r EXCEPT !.st = "data", !.want = tok.n]
  ELSE IF r.st = "data" THEN
         IF tok.t # "data" \/ Len(tok.d) # r.want THEN [r EXCEPT !.err = TRUE]
         ELSE [r EXCEPT !.st = "end", !.body = @ \o tok.d]
  ELSE IF r.st = "end" THEN (IF tok.t = "crlf" THEN [r EXCEPT !.st = "size"] ELSE [r EXCEPT !.err = TRUE])
  ELSE IF r.st = "trailers" THEN
         IF tok.t = "trailer" THEN [r EXCEPT !.trails = Append(@, tok.k)]
         ELSE IF tok.t = "crlf" THEN [r EXCEPT !.st = "done"] ELSE [r EXCEPT !.err = TRUE]
  ELSE [r EXCEPT !.err = TRUE]
RECURSIVE Run(_, _)
Run(r, toks) == IF toks = <<>> THEN r ELSE Run(Step(r, Head(toks)), Tail(toks))
Decode(toks) == Run([st |-> "size", body |-> <<>>, trails |-> <<>>, want |-> 0, err |-> FALSE], toks)
Cases == UNION {{[n |-> n, div |-> d, exts |-> e, lastext |-> le, trailers |-> t] :
                   d \in Divisions(n), e \in UNION {[1..k -> BOOLEAN] : k \in 0..n}, le \in BOOLEAN, t \in 0..MaxTrailers}
                : n \in 0..MaxBody}
OkCase(cs) == Len(cs.exts) = Len(cs.div)
\* ---- (ii)
Hex == {"0", "1", "a"}
SizeStrings == UNION {[1..k -> SizeSyms] : k \in 0..MaxSizeLen}
AllHex(s) == \A i \in DOMAIN s : s[i] \in Hex
HexVal(ch) == CASE ch = "0" -> 0 [] ch = "1" -> 1 [] ch = "a" -> 10
RECURSIVE Val(_, _)
Val(s, acc) == IF s = <<>> THEN acc ELSE Val(Tail(s), 16 * acc + HexVal(Head(s)))
RECURSIVE Trim(_)
Trim(s) == IF s # <<>> /\ Head(s) = " " THEN Trim(Tail(s))
           ELSE IF s # <<>> /\ s[Len(s)] = " " THEN Trim(SubSeq(s, 1, Len(s) - 1)) ELSE s
Class(s) == IF s # <<>> /\ AllHex(s) THEN "accept"
            ELSE IF Trim(s) # s /\ Trim(s) # <<>> /\ AllHex(Trim(s)) THEN "dontcare"
            ELSE "reject"
-----------------------------------------------------------------------------
Init == IF Mode = "coding" THEN c \in {cs \in Cases : OkCase(cs)} ELSE c \in SizeStrings
Next == UNCHANGED c
Spec == Init /\ [][Next]_vars
\* C17 (i)
RoundTrip == Mode = "coding" => LET r == Decode(Encode(c)) IN
                ~r.err /\ r.st = "done" /\ r.body = Body(c.n) /\ r.trails = [i \in 1..c.trailers |-> i]
\* C17 (ii): the classes are disjoint and total, an accepted string has a value
SizeClasses == Mode = "sizes" => (Class(c) = "accept" => Val(c, 0) >= 0) /\ Class(c) \in {"accept", "dontcare", "reject"}
====
