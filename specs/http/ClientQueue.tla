---- MODULE ClientQueue ----
\* Request queue of hio.core.http.clienting.Client against scripted servers (property C19).
\* Each queued request r has a server script: "ok", "delay" (answered some service rounds later), "created" (a final
\* answer that carries a Location field without being a redirect, 201: nothing is followed), "notmod" (304 with a
\* Content-Length field: complete without a body, the next answer is the next request's), "redir-rel" / "redir-abs"
\* (302 to the same server, relative / absolute Location), "redir-2" (two hops), "redir-other" (302 to another server),
\* "redir-down" (302 from https to http: refused when the client is secure), "close-before" / "close-during" (the server
\* closes the connection instead of / in the middle of answering).  One action per step of the exchange.
EXTENDS Naturals, Sequences, TLC
CONSTANTS Scripts, MaxQ, Secure
VARIABLES queue, inflight, hops, host, wire, responses, outstanding, dead
vars == <<queue, inflight, hops, host, wire, responses, outstanding, dead>>
NoReq == [rid |-> 0, s |-> "none", togo |-> 0]
Init == /\ queue \in UNION {[1..n -> Scripts] : n \in 1..MaxQ}
        /\ inflight = NoReq /\ hops = 0 /\ host = "A" /\ wire = <<>> /\ responses = <<>> /\ outstanding = 0 /\ dead = FALSE
Rid == Len(responses) + 1
\* "redir-2bad": one hop that is followed, then a redirect whose Location cannot be followed (no host): the entry is the
\* second redirect response, in error, with the history of the hop that was followed
Redirs(s) == CASE s \in {"redir-rel", "redir-abs", "redir-other", "redir-2bad"} -> 1 [] s = "redir-2" -> 2
               [] s = "redir-down" -> (IF Secure THEN 0 ELSE 1) [] OTHER -> 0
\* the client takes the next request only when it is not waiting for a response
Send == /\ inflight = NoReq /\ ~dead /\ Rid <= Len(queue)
        /\ inflight' = [rid |-> Rid, s |-> queue[Rid], togo |-> Redirs(queue[Rid])]
        /\ wire' = Append(wire, [rid |-> Rid, host |-> host, hop |-> 0]) /\ outstanding' = outstanding + 1 /\ hops' = 0
        /\ UNCHANGED <<queue, host, responses, dead>>
\* the server's answer to the request on the wire
Answer ==
  /\ inflight # NoReq
  /\ LET s == inflight.s IN
     IF inflight.togo > 0 THEN                              \* a redirect: followed at once, same queue entry
        /\ host' = (IF s \in {"redir-other", "redir-down"} THEN "B" ELSE host)
        /\ wire' = Append(wire, [rid |-> inflight.rid, host |-> host', hop |-> hops + 1])
        /\ hops' = hops + 1 /\ inflight' = [inflight EXCEPT !.togo = @ - 1]
        /\ UNCHANGED <<responses, outstanding, dead, queue>>
     ELSE
        /\ responses' = Append(responses, [rid |-> inflight.rid,
                                           kind |-> IF s \in {"close-before", "close-during", "redir-2bad"} \/ (s = "redir-down" /\ Secure) THEN "errored" ELSE "ok",
                                           hops |-> hops])
        /\ dead' = (s \in {"close-before", "close-during"})
        /\ inflight' = NoReq /\ outstanding' = outstanding - 1
        /\ UNCHANGED <<wire, hops, host, queue>>
Next == Send \/ Answer
Spec == Init /\ [][Next]_vars
-----------------------------------------------------------------------------
\* a connection closed by the server is not reopened by this client configuration: closing scripts come last
OkQueue == \A i \in 1..(Len(queue) - 1) : queue[i] \notin {"close-before", "close-during"}
Done == inflight = NoReq /\ (dead \/ Len(responses) = Len(queue))
\* C19
OneAtATime == outstanding <= 1
FifoOneToOne == \A i \in DOMAIN responses : responses[i].rid = i
WireInQueueOrder == \A i, j \in DOMAIN wire : i < j => wire[i].rid <= wire[j].rid
RedirectTransparent == \A i \in DOMAIN responses : (responses[i].kind = "ok" \/ queue[i] = "redir-2bad") => responses[i].hops = Redirs(queue[i])
NoDowngrade == Secure => \A i \in DOMAIN wire : (queue[wire[i].rid] = "redir-down") => wire[i].hop = 0
EveryRequestAnswered == (Done /\ OkQueue) => Len(responses) = Len(queue)
====
