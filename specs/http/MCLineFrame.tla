---- MODULE MCLineFrame ----
EXTENDS LineFrameGen
E3 == <<"CRLF", "LF", "CR">>
E2 == <<"CRLF", "LF">>
E1 == <<"CRLF">>
====
