---- MODULE MCIdle ----
EXTENDS IdleGen
MCPats == {<<"stall">>, <<"blocked">>, <<"slow">>, <<>>, <<"p">>, <<"p", "p", "p", "p">>, <<"g", "p">>, <<"p", "g", "g", "p">>, <<"g", "g", "g", "g">>}
MCBases == {-20, 0, 50}
====
