---- MODULE Sse ----
\* Server-sent event streams as hio.core.http.httping.EventSource must interpret them (property C15).
\* A stream is a sequence of lines, each a line kind with its own terminator (CRLF, LF or CR).  Dispatch follows the
\* event-stream rules the property states: fields accumulate (data lines joined by LF, event name, id, retry), a blank
\* line dispatches an event iff data was given, the id persists across events, comments / unknown fields / malformed
\* retry values are ignored.  Byte-level splitting of the lines is LineFrame.tla with terminators (CRLF, LF, CR).
EXTENDS Integers, Sequences, TLC
CONSTANTS Kinds,      \* line kinds to build streams from
          MaxLines
VARIABLES lines, st, pos
vars == <<lines, st, pos>>
Terms == {"CRLF", "LF", "CR"}
\* wire text of a line kind
Text(k) == CASE k = "id1" -> "id: 1" [] k = "id2" -> "id:2" [] k = "id0" -> "id:" [] k = "id0n" -> "id" [] k = "ev" -> "event: tick" [] k = "d1" -> "data: one"
             [] k = "d2" -> "data:two" [] k = "dsp" -> "data:  lead" [] k = "dnone" -> "data" [] k = "r5" -> "retry: 5000"
             [] k = "rbad" -> "retry: 1x" [] k = "cmt" -> ": note" [] k = "unk" -> "foo: bar" [] k = "blank" -> ""
New == [data |-> <<>>, hasdata |-> FALSE, name |-> "", id |-> "None", leid |-> "None", retry |-> -1, events |-> <<>>]
\* one line processed
Apply(s, k) ==
  CASE k = "blank" -> IF s.hasdata /\ ~(Len(s.data) = 1 /\ s.data[1] = "")     \* data buffer empty string: no dispatch
                      THEN [s EXCEPT !.events = Append(@, [id |-> s.id, name |-> s.name, data |-> s.data]),
                                     !.data = <<>>, !.hasdata = FALSE, !.name = ""]
                      ELSE [s EXCEPT !.data = <<>>, !.hasdata = FALSE, !.name = ""]
    [] k = "id1" -> [s EXCEPT !.id = "1", !.leid = "1"]
    [] k = "id2" -> [s EXCEPT !.id = "2", !.leid = "2"]
    [] k \in {"id0", "id0n"} -> [s EXCEPT !.id = "", !.leid = ""]           \* an empty id resets the last event id to the empty string
    [] k = "ev" -> [s EXCEPT !.name = "tick"]
    [] k = "d1" -> [s EXCEPT !.data = Append(@, "one"), !.hasdata = TRUE]
    [] k = "d2" -> [s EXCEPT !.data = Append(@, "two"), !.hasdata = TRUE]
    [] k = "dsp" -> [s EXCEPT !.data = Append(@, " lead"), !.hasdata = TRUE]       \* only ONE space after the colon is dropped
    [] k = "dnone" -> [s EXCEPT !.data = Append(@, ""), !.hasdata = TRUE]
    [] k = "r5" -> [s EXCEPT !.retry = 5000]
    [] OTHER -> s                                                               \* comment, unknown field, malformed retry
\* streams: no blank LF/CRLF-ambiguity (a blank line terminated by LF right after a CR-terminated line IS a CRLF), and
\* the stream ends with a line that is not CR-terminated (a trailing CR has to wait for the next byte)
OkStream(q) == /\ q # <<>> /\ q[Len(q)].t # "CR" /\ q[Len(q)].k = "blank"
               /\ \A i \in 1..(Len(q) - 1) : ~(q[i].t = "CR" /\ q[i + 1].k = "blank" /\ q[i + 1].t = "LF")
\* the stream is built line by line (so that TLC can also draw long random ones), then sealed: the whole of it is interpreted
RECURSIVE Run(_, _)
Run(s, q) == IF q = <<>> THEN s ELSE Run(Apply(s, Head(q).k), Tail(q))
Init == lines = <<>> /\ st = New /\ pos = "build"
Add(k, t) == pos = "build" /\ Len(lines) < MaxLines /\ lines' = Append(lines, [k |-> k, t |-> t]) /\ UNCHANGED <<st, pos>>
Seal == pos = "build" /\ OkStream(lines) /\ st' = Run(New, lines) /\ pos' = "sealed" /\ UNCHANGED lines
\* the last line of a full-length stream is the closing blank line, so that random walks end in a complete stream
Next == \/ Seal
        \/ (Len(lines) < MaxLines - 1 /\ \E k \in Kinds, t \in Terms : Add(k, t))
        \/ (Len(lines) = MaxLines - 1 /\ \E t \in {"LF", "CRLF"} : Add("blank", t))
Spec == Init /\ [][Next]_vars
-----------------------------------------------------------------------------
\* C15 at the level of lines
EventsHaveData == \A i \in DOMAIN st.events : st.events[i].data # <<>>
IdPersists == \A i, j \in DOMAIN st.events : (i < j /\ st.events[i].id # "None") => st.events[j].id # "None"
LeidIsLastId == st.events # <<>> /\ st.leid = "None" => st.events[Len(st.events)].id = "None"
====
