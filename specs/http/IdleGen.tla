---- MODULE IdleGen ----
EXTENDS Idle, Json
Dump == (tyme = MaxTyme) => PrintT(<<"BH", ToJson(h)>>)
====
