---- MODULE KeyStore ----
\* hio.base.during Suber / IoSuber / IoSetSuber (property C24).
\* `dict` is the dictionary the property speaks of (key -> value | list of values | ordered set of values) with the
\* abstract result `ares` of every operation.  `db` is the implementation model: ONE lexicographically ordered key space
\* of byte strings, where the values of a key live under  key . <32 hex digits of the insertion ordinal>  and every
\* operation is the cursor scan the code performs (set_range, iterate while unsuffix(iokey).key = key, break otherwise).
\* Keys are real byte strings (sequences of character codes), ordinals are 32 hex digits, so the ordering of the model's
\* key space IS the ordering LMDB uses: nothing is abstracted about the encoding.
EXTENDS Naturals, Sequences, FiniteSets, SequencesExt, TLC
CONSTANTS Keys,        \* set of keys (sequences of character codes)
          Vals,        \* value domain
          Kind,        \* "plain" | "io" | "ioset"
          MaxEntries,  \* bound on the number of stored entries
          MaxOps
VARIABLES db, dict, res, ares, h
vars == <<db, dict, res, ares, h>>
SEP == 46   \* "."
HexDigit(n) == IF n < 10 THEN 48 + n ELSE 87 + n
Hex32(n) == [i \in 1..31 |-> 48] \o <<HexDigit(n)>>          \* ordinals stay below 16 within the bounds
MaxIon == [i \in 1..32 |-> 102]                               \* "f" * 32
Suffix(key, n) == key \o <<SEP>> \o Hex32(n)
LastSep(s) == CHOOSE i \in DOMAIN s : s[i] = SEP /\ \A j \in (i+1)..Len(s) : s[j] # SEP
UnKey(s) == SubSeq(s, 1, LastSep(s) - 1)                      \* unsuffix(iokey)[0]: rsplit at the rightmost separator
UnIon(s) == LET c == s[Len(s)] IN IF c < 58 THEN c - 48 ELSE c - 87
RECURSIVE Lt(_, _)
Lt(a, b) == IF b = <<>> THEN FALSE ELSE IF a = <<>> THEN TRUE
            ELSE IF Head(a) # Head(b) THEN Head(a) < Head(b) ELSE Lt(Tail(a), Tail(b))
Sorted == SetToSortSeq(db, LAMBDA x, y : Lt(x.k, y.k))
From(q, iokey) == SelectSeq(q, LAMBDA e : ~Lt(e.k, iokey))   \* cursor.set_range(iokey) and everything after it
RECURSIVE TakeOwn(_, _)
TakeOwn(q, key) == IF q = <<>> \/ UnKey(Head(q).k) # key THEN <<>> ELSE <<Head(q)>> \o TakeOwn(Tail(q), key)
Own(key) == TakeOwn(From(Sorted, Suffix(key, 0)), key)        \* the scan every Io method performs
ValsOf(q) == [i \in DOMAIN q |-> q[i].v]
Has(q, v) == \E i \in DOMAIN q : q[i] = v
RECURSIVE Dedup(_, _)
Dedup(q, acc) == IF q = <<>> THEN acc ELSE Dedup(Tail(q), IF Has(acc, Head(q)) THEN acc ELSE Append(acc, Head(q)))
RECURSIVE Minus(_, _)
Minus(q, p) == IF q = <<>> THEN <<>> ELSE (IF Has(p, Head(q)) THEN <<>> ELSE <<Head(q)>>) \o Minus(Tail(q), p)
NextIon(key) == LET o == Own(key) IN IF o = <<>> THEN 0 ELSE UnIon(o[Len(o)].k) + 1
At(k) == {e \in db : e.k = k}
PutAt(d, k, v, overwrite) == IF \E e \in d : e.k = k
                             THEN (IF overwrite THEN {e \in d : e.k # k} \cup {[k |-> k, v |-> v]} ELSE d)
                             ELSE d \cup {[k |-> k, v |-> v]}
RECURSIVE PutSeq(_, _, _, _, _)
PutSeq(d, key, n, vs, overwrite) == IF vs = <<>> THEN d
                                    ELSE PutSeq(PutAt(d, Suffix(key, n), Head(vs), overwrite), key, n + 1, Tail(vs), overwrite)
DelOwn(key) == db \ {Own(key)[i] : i \in DOMAIN Own(key)}
\* ---- implementation-level operations: [d |-> new db, r |-> result]
IAdd(key, v) == IF Kind = "ioset" /\ Has(ValsOf(Own(key)), v) THEN [d |-> db, r |-> "F"]
                ELSE LET k == Suffix(key, NextIon(key)) IN
                     IF Kind = "ioset" /\ At(k) # {} THEN [d |-> db, r |-> "F"]       \* put(overwrite=False) on a taken slot
                     ELSE [d |-> PutAt(db, k, v, TRUE), r |-> "T"]
IPut(key, vs) == LET new == IF Kind = "ioset" THEN Minus(Dedup(vs, <<>>), ValsOf(Own(key))) ELSE vs
                     n == NextIon(key)
                     free == \A i \in DOMAIN new : At(Suffix(key, n + i - 1)) = {}
                 IN [d |-> PutSeq(db, key, n, new, Kind = "io"),
                     r |-> IF new = <<>> THEN "F" ELSE IF Kind = "io" \/ free THEN "T" ELSE "?"]
IPin(key, vs) == LET new == IF Kind = "ioset" THEN Dedup(vs, <<>>) ELSE vs
                 IN [d |-> PutSeq(DelOwn(key), key, 0, new, TRUE), r |-> "T"]
IGet(key) == ValsOf(Own(key))
IFirst(key) == LET f == From(Sorted, Suffix(key, 0)) IN
               IF f # <<>> /\ UnKey(f[1].k) = key THEN f[1].v ELSE "None"
ILast(key) ==      \* getIoValLast: position at key.ffff..., step back one entry
   LET s == Sorted
       f == From(s, key \o <<SEP>> \o MaxIon)
       ion == IF f = <<>>
              THEN (IF s # <<>> /\ UnKey(s[Len(s)].k) = key THEN UnIon(s[Len(s)].k) ELSE 99)
              ELSE IF UnKey(f[1].k) = key THEN UnIon(f[1].k)
              ELSE LET i == Len(s) - Len(f) IN      \* index of the entry before the cursor
                   IF i >= 1 /\ UnKey(s[i].k) = key THEN UnIon(s[i].k) ELSE 99
   IN IF ion = 99 THEN "None"
      ELSE LET hit == At(Suffix(key, ion)) IN IF hit = {} THEN "?" ELSE (CHOOSE e \in hit : TRUE).v
IPop(key) == LET f == From(Sorted, Suffix(key, 0)) IN
             IF f # <<>> /\ UnKey(f[1].k) = key THEN [d |-> db \ {f[1]}, r |-> f[1].v] ELSE [d |-> db, r |-> "None"]
IRem(key) == [d |-> DelOwn(key), r |-> IF Own(key) = <<>> THEN "F" ELSE "T"]
IRemVal(key, v) == LET o == Own(key) IN
                   IF Has(ValsOf(o), v)
                   THEN LET i == CHOOSE i \in DOMAIN o : o[i].v = v /\ \A j \in 1..(i-1) : o[j].v # v
                        IN [d |-> db \ {o[i]}, r |-> "T"]
                   ELSE [d |-> db, r |-> "F"]
\* plain Suber: one entry per key, key stored as is
PGet(key) == IF At(key) = {} THEN "None" ELSE (CHOOSE e \in At(key) : TRUE).v
-----------------------------------------------------------------------------
Init == db = {} /\ dict = [k \in Keys |-> <<>>] /\ res = "-" /\ ares = "-" /\ h = <<>>
Log(op, key, a) == h' = Append(h, [op |-> op, key |-> key, a |-> a, res |-> res', ares |-> ares'])
Set(key, q) == dict' = [dict EXCEPT ![key] = q]
Room(n) == Cardinality(db) + n <= MaxEntries
IsIo == Kind \in {"io", "ioset"}
Add(key, v) == /\ IsIo /\ Room(1)
               /\ LET i == IAdd(key, v)  dup == Kind = "ioset" /\ Has(dict[key], v) IN
                  /\ db' = i.d /\ res' = i.r
                  /\ ares' = (IF dup THEN "F" ELSE "T") /\ Set(key, IF dup THEN dict[key] ELSE Append(dict[key], v))
               /\ Log("add", key, v)
Put(key, vs) == /\ IsIo /\ Room(Len(vs)) /\ vs # <<>>
                /\ LET i == IPut(key, vs)
                       new == IF Kind = "ioset" THEN Minus(Dedup(vs, <<>>), dict[key]) ELSE vs IN
                   /\ db' = i.d /\ res' = i.r
                   /\ ares' = (IF new = <<>> THEN "F" ELSE "T") /\ Set(key, dict[key] \o new)
                /\ Log("put", key, vs)
Pin(key, vs) == /\ IsIo /\ Room(Len(vs)) /\ vs # <<>>
                /\ LET i == IPin(key, vs) IN db' = i.d /\ res' = i.r
                /\ ares' = "T" /\ Set(key, IF Kind = "ioset" THEN Dedup(vs, <<>>) ELSE vs)
                /\ Log("pin", key, vs)
Get(key) == /\ IsIo /\ res' = IGet(key) /\ ares' = dict[key] /\ UNCHANGED <<db, dict>> /\ Log("get", key, "-")
Cnt(key) == /\ IsIo /\ res' = Len(IGet(key)) /\ ares' = Len(dict[key]) /\ UNCHANGED <<db, dict>> /\ Log("cnt", key, "-")
GetFirst(key) == /\ IsIo /\ res' = IFirst(key) /\ ares' = (IF dict[key] = <<>> THEN "None" ELSE Head(dict[key]))
              /\ UNCHANGED <<db, dict>> /\ Log("getFirst", key, "-")
GetLast(key) == /\ IsIo /\ res' = ILast(key) /\ ares' = (IF dict[key] = <<>> THEN "None" ELSE dict[key][Len(dict[key])])
             /\ UNCHANGED <<db, dict>> /\ Log("getLast", key, "-")
Pop(key) == /\ IsIo /\ LET i == IPop(key) IN db' = i.d /\ res' = i.r
            /\ ares' = (IF dict[key] = <<>> THEN "None" ELSE Head(dict[key]))
            /\ Set(key, IF dict[key] = <<>> THEN <<>> ELSE Tail(dict[key]))
            /\ Log("pop", key, "-")
Rem(key) == /\ IsIo /\ LET i == IRem(key) IN db' = i.d /\ res' = i.r
            /\ ares' = (IF dict[key] = <<>> THEN "F" ELSE "T") /\ Set(key, <<>>)
            /\ Log("rem", key, "-")
RemVal(key, v) == /\ Kind = "ioset" /\ LET i == IRemVal(key, v) IN db' = i.d /\ res' = i.r
                  /\ ares' = (IF Has(dict[key], v) THEN "T" ELSE "F")
                  /\ Set(key, SelectSeq(dict[key], LAMBDA x : x # v))
                  /\ Log("remval", key, v)
\* plain
PPut(key, v) == /\ Kind = "plain" /\ Room(1)
                /\ db' = PutAt(db, key, v, FALSE) /\ res' = (IF At(key) = {} THEN "T" ELSE "F")
                /\ ares' = (IF dict[key] = <<>> THEN "T" ELSE "F") /\ Set(key, IF dict[key] = <<>> THEN <<v>> ELSE dict[key])
                /\ Log("put", key, v)
PPin(key, v) == /\ Kind = "plain" /\ Room(1)
                /\ db' = PutAt(db, key, v, TRUE) /\ res' = "T" /\ ares' = "T" /\ Set(key, <<v>>)
                /\ Log("pin", key, v)
PGetOp(key) == /\ Kind = "plain" /\ res' = PGet(key) /\ ares' = (IF dict[key] = <<>> THEN "None" ELSE dict[key][1])
               /\ UNCHANGED <<db, dict>> /\ Log("get", key, "-")
PRem(key) == /\ Kind = "plain" /\ db' = db \ At(key) /\ res' = (IF At(key) = {} THEN "F" ELSE "T")
             /\ ares' = (IF dict[key] = <<>> THEN "F" ELSE "T") /\ Set(key, <<>>)
             /\ Log("rem", key, "-")
Seqs(n) == UNION {[1..k -> Vals] : k \in 1..n}
Next == /\ Len(h) < MaxOps
        /\ \E key \in Keys :
             \/ \E v \in Vals : Add(key, v) \/ RemVal(key, v) \/ PPut(key, v) \/ PPin(key, v)
             \/ \E vs \in Seqs(2) : Put(key, vs) \/ Pin(key, vs)
             \/ Get(key) \/ Cnt(key) \/ GetFirst(key) \/ GetLast(key) \/ Pop(key) \/ Rem(key) \/ PGetOp(key) \/ PRem(key)
Spec == Init /\ [][Next]_vars
-----------------------------------------------------------------------------
MCView == <<db, dict, res, ares, Len(h)>>
\* C24: every operation returns what the dictionary returns, and the stored content of every key is the dictionary's
ResultsAgree == res = ares
ContentAgrees == IsIo => \A key \in Keys : IGet(key) = dict[key]
\* signature of the known finding C24-key-interleave: the key set holds k1 and k2 = k1 . r with r[1] >= "0"
IsPrefixOf(p, s) == Len(p) <= Len(s) /\ SubSeq(s, 1, Len(p)) = p
Interleaving == \E k1, k2 \in Keys : k1 # k2 /\ IsPrefixOf(k1 \o <<SEP>>, k2) /\ Len(k2) > Len(k1) + 1
                                       /\ k2[Len(k1) + 2] >= 48
====
