---- MODULE QueueGen ----
EXTENDS Queue, Json
\* G2: every maximal history (length MaxOps) with the expected result, queue content and durable content after each op
Dump == (Len(h) = MaxOps) => PrintT(<<"BH", ToJson(h)>>)
====
