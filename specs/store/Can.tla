---- MODULE Can ----
(* Durable data objects of the hierarchical state store: hio.base.hier.canning.CanDom / Can held by a Hold that is backed
   by a Subery (sub-db "cans.").  Beyond the listed properties (C23/C24 name the queues and the keyed stores): the same
   mirror / survive-reopen discipline for the third kind of durable value.  Modelled AS CODED, one action per public
   step, with the flags the code keeps:

     mem[k]    the field `value` of the live object held at key k
     dur[k]    the value in the durable copy at key k, or Absent
     stale[k]  CanDom._stale : "my fields have not been synced with the durable copy yet"
     inj[k]    the object has ._sdb/._key (it was assigned into a Hold that has a subery)
     opened    the LMDB environment is open
     lostw[k]  ghost: the object was written while the environment was closed and the write has reached neither the
               durable copy nor been discarded (a named deviation of the code from "mirror always": a write while closed
               stays in memory only, and re-injecting the same object does not repair it because ._stale is False)

   Durable(k) == inj[k] /\ opened is the code's property ._durable.
   Set(k, v)        can.value = v            -> pin when durable
   Update(k, v)     can._update(value=v)     -> bulk: one pin at the end when durable
   Sync(k, force)   can._sync(force)         -> read when a copy exists and (stale or force), else pin when absent
   Pin(k)           can._pin()
   Inject(k)        hold[k] = can            -> sets _sdb/_key, then _sync()
   Swap(k)          hold[k] = Can()          -> a fresh object replaces the one held at k
   Close            subery.close()
   Open(F)          subery.reopen(), a new Hold, and for every key: a FRESH Can() (k in F) or the same object, injected
*)
EXTENDS Naturals, Sequences, FiniteSets, TLC
CONSTANTS Keys, Vals, MaxOps
None == "None"
Absent == "absent"
VARIABLES mem, dur, stale, inj, opened, lostw, h
vars == <<mem, dur, stale, inj, opened, lostw, h>>
MCView == <<mem, dur, stale, inj, opened, lostw, Len(h)>>

Durable(k) == inj[k] /\ opened
Obs(op, k, a, res) == [op |-> op, k |-> k, a |-> a, res |-> res, mem |-> mem', dur |-> dur', stale |-> stale']
Rec(op, k, a, res) == h' = Append(h, Obs(op, k, a, res))
More == Len(h) < MaxOps

Init == /\ mem = [k \in Keys |-> None] /\ dur = [k \in Keys |-> Absent] /\ stale = [k \in Keys |-> TRUE]
        /\ inj = [k \in Keys |-> FALSE] /\ opened = TRUE /\ lostw = [k \in Keys |-> FALSE] /\ h = <<>>

\* the effect of _pin(): write own fields when durable (never inside a read: _fresh is False outside _sync)
PinEff(k, m, ok) == IF ok THEN /\ dur' = [dur EXCEPT ![k] = m] /\ stale' = [stale EXCEPT ![k] = FALSE]
                              /\ lostw' = [lostw EXCEPT ![k] = FALSE]
                         ELSE /\ UNCHANGED <<dur, stale>>

Write(op, k, v) == /\ More /\ mem' = [mem EXCEPT ![k] = v]
                   /\ PinEff(k, v, Durable(k))
                   /\ IF Durable(k) THEN TRUE ELSE lostw' = [lostw EXCEPT ![k] = inj[k]]
                   /\ UNCHANGED <<inj, opened>> /\ Rec(op, k, v, "-")
Set(k, v) == Write("set", k, v)
Update(k, v) == Write("update", k, v)

\* _sync(force) on the current object
SyncEff(k, force, st, m, durable) ==
    IF durable /\ (st \/ force)
    THEN IF dur[k] # Absent
         THEN <<dur[k], dur[k], FALSE, "T">>        \* read: <<mem', dur', stale', result>>
         ELSE <<m, m, FALSE, "T">>                  \* empty: pin
    ELSE <<m, dur[k], st, "F">>

Sync(k, force) == /\ More
                  /\ LET e == SyncEff(k, force, stale[k], mem[k], Durable(k)) IN
                     /\ mem' = [mem EXCEPT ![k] = e[1]] /\ dur' = [dur EXCEPT ![k] = e[2]]
                     /\ stale' = [stale EXCEPT ![k] = e[3]]
                     /\ lostw' = [lostw EXCEPT ![k] = IF e[4] = "T" THEN FALSE ELSE @]
                     /\ Rec("sync", k, IF force THEN "force" ELSE "lazy", e[4])
                  /\ UNCHANGED <<inj, opened>>

Pin(k) == /\ More /\ PinEff(k, mem[k], Durable(k)) /\ (IF Durable(k) THEN TRUE ELSE UNCHANGED lostw)
          /\ UNCHANGED <<mem, inj, opened>> /\ Rec("pin", k, "-", IF Durable(k) THEN "T" ELSE "F")

\* hold[k] = can : the Hold's subery exists whether or not it is open; _sync() without force
Inject(k) == /\ More /\ ~inj[k]
             /\ LET e == SyncEff(k, FALSE, stale[k], mem[k], opened) IN
                /\ mem' = [mem EXCEPT ![k] = e[1]] /\ dur' = [dur EXCEPT ![k] = e[2]]
                /\ stale' = [stale EXCEPT ![k] = e[3]]
             /\ inj' = [inj EXCEPT ![k] = TRUE] /\ UNCHANGED <<opened, lostw>>
             /\ Rec("inject", k, "-", "-")

\* hold[k] = Can() while another object is held at k: the new object takes the key (a fresh object is stale: it reads the
\* copy when there is one and the environment is open); the old object keeps its _sdb/_key but is no longer observed
Swap(k) == /\ More /\ inj[k]
           /\ LET e == SyncEff(k, FALSE, TRUE, None, opened) IN
              /\ mem' = [mem EXCEPT ![k] = e[1]] /\ dur' = [dur EXCEPT ![k] = e[2]]
              /\ stale' = [stale EXCEPT ![k] = e[3]]
              /\ lostw' = [lostw EXCEPT ![k] = FALSE]
           /\ UNCHANGED <<inj, opened>> /\ Rec("swap", k, "-", "-")

Close == /\ More /\ opened /\ opened' = FALSE /\ UNCHANGED <<mem, dur, stale, inj, lostw>> /\ Rec("close", "all", "-", "-")

\* reopen: every key gets a fresh object (F) or keeps its object; every object that was in the Hold is injected again
Open(F) == /\ More /\ ~opened /\ opened' = TRUE
           /\ LET st(k) == IF k \in F THEN TRUE ELSE stale[k]
                  m(k) == IF k \in F THEN None ELSE mem[k]
                  e(k) == SyncEff(k, FALSE, st(k), m(k), inj[k]) IN
              /\ mem' = [k \in Keys |-> e(k)[1]] /\ dur' = [k \in Keys |-> e(k)[2]]
              /\ stale' = [k \in Keys |-> e(k)[3]]
              /\ lostw' = [k \in Keys |-> IF k \in F \/ e(k)[4] = "T" THEN FALSE ELSE lostw[k]]
           /\ UNCHANGED inj /\ Rec("open", "all", F, "-")

Next == \/ \E k \in Keys, v \in Vals \cup {None} : Set(k, v) \/ Update(k, v)
        \/ \E k \in Keys, f \in BOOLEAN : Sync(k, f)
        \/ \E k \in Keys : Pin(k) \/ Inject(k) \/ Swap(k)
        \/ Close
        \/ \E F \in SUBSET {k \in Keys : inj[k]} : Open(F)
Spec == Init /\ [][Next]_vars

TypeOK == /\ mem \in [Keys -> Vals \cup {None}] /\ dur \in [Keys -> Vals \cup {None, Absent}]
          /\ stale \in [Keys -> BOOLEAN] /\ inj \in [Keys -> BOOLEAN] /\ opened \in BOOLEAN
\* the durable copy mirrors the object whenever the object is durable and no write was made while closed
Mirror == \A k \in Keys : (Durable(k) /\ ~lostw[k]) => dur[k] = mem[k]
\* a durable object is never stale (every way of becoming durable syncs)
DurableSynced == \A k \in Keys : Durable(k) => ~stale[k]
\* nothing is ever deleted, and nothing is written for an object that is not in the Hold
NoPhantom == \A k \in Keys : ~inj[k] => dur[k] = Absent
\* an operation on one key never changes another key's object or copy
Isolated == [][\A k \in Keys : (dur'[k] # dur[k] \/ mem'[k] # mem[k] \/ stale'[k] # stale[k])
                                  => h'[Len(h')].k \in {k, "all"}]_vars
\* the copy only changes by a write of the object's own value (no step invents a value)
CopyFromObject == [][\A k \in Keys : dur'[k] # dur[k] => dur'[k] = mem'[k]]_vars
\* reopen with a fresh object restores the last durable value (survive reopen)
Survive == [][\A k \in Keys : (h'[Len(h')].op = "open" /\ inj[k] /\ dur[k] # Absent) => (mem'[k] = dur[k] \/ k \notin h'[Len(h')].a)]_vars
====
