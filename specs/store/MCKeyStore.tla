---- MODULE MCKeyStore ----
EXTENDS KeyStoreGen
\* "a" = 97, "b" = 98, "-" = 45, "." = 46
KA == <<97>>
KAB == <<97, 98>>
KADASH == <<97, 45>>
KADOT == <<97, 46>>
KB == <<98>>
KAION1 == <<97, 46>> \o Hex32(1)
KAG == <<97, 46, 103>>
KAB2 == <<97, 46, 66>>
SafeKeys == {KA, KAB, KADASH, KADOT, KB}
BadKeys == {KA, KAION1, KAB2}
====
