---- MODULE MCKeyStore ----
EXTENDS KeyStoreGen
\* "a" = 97, "b" = 98, "-" = 45, "." = 46
KA == <<97>>
KAB == <<97, 98>>
KADASH == <<97, 45>>
KADOT == <<97, 46>>
KB == <<98>>
KAION1 == <<97, 46>> \o Hex32(1)
KAG == <<97, 46, 103>>
KAB2 == <<97, 46, 66>>
SafeKeys == {KA, KAB, KADASH, KADOT, KB}
BadKeys == {KA, KAION1, KAB2}
\* histories that begin with three values under one key (put of a list of three): what follows meets ordinals with a hole
\* in the middle (ioset: rem(key, val)) or at the front (pop), the cases no history of two short operations reaches
HoleKeys == {KA, KAB}
Full == <<"x", "y", "z">>
HolesInit == /\ db = PutSeq({}, KA, 0, Full, TRUE) /\ dict = [k \in Keys |-> IF k = KA THEN Full ELSE <<>>]
             /\ res = "T" /\ ares = "T" /\ h = <<[op |-> "put", key |-> KA, a |-> Full, res |-> "T", ares |-> "T"]>>
HolesSpec == HolesInit /\ [][Next]_vars
====
