---- MODULE KeyStoreGen ----
EXTENDS KeyStore, Json
Dump == (Len(h) = MaxOps) => PrintT(<<"BH", ToJson(h)>>)
====
