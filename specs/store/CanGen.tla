---- MODULE CanGen ----
EXTENDS Can, Json
\* G2: every maximal history (length MaxOps) with the expected result, object values, durable copies and stale flags after each op
Dump == (Len(h) = MaxOps) => PrintT(<<"BH", ToJson(h)>>)
====
