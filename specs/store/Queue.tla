---- MODULE Queue ----
\* hio.base.hier Durq (durable FIFO queue) and Dusq (durable insertion-ordered set with FIFO pull) (property C23).
\* Structured like the code: every public operation is one action that updates the in-memory cache `mem` and then
\* performs the mirrored operation on the durable sub-database entry `disk` (the value list the IoSuber / IoSetSuber
\* keeps under the injected key; its own key-space implementation is the subject of IoKeySpace.tla, C24).
\* `abs` is the abstract FIFO queue / ordered set the property speaks of; `err` records a HierError ("mismatch").
\* Environment: the store may be closed and reopened between any two operations, after which either a fresh object is
\* injected and synced (Reopen: also models a crash that loses the in-memory object) or the same object is re-injected
\* and force-synced (Resync).
EXTENDS Naturals, Sequences, FiniteSets, TLC
CONSTANTS Kind,      \* "durq" | "dusq"
          Vals,      \* value domain
          MaxLen,    \* bound on queue length explored
          MaxOps     \* bound on history length
VARIABLES mem, disk, abs, res, err, h, old
vars == <<mem, disk, abs, res, err, h, old>>
IsSet == Kind = "dusq"
Has(q, v) == \E i \in DOMAIN q : q[i] = v
RECURSIVE Dedup(_, _)
Dedup(q, acc) == IF q = <<>> THEN acc
                 ELSE Dedup(Tail(q), IF Has(acc, Head(q)) THEN acc ELSE Append(acc, Head(q)))
RECURSIVE Minus(_, _)      \* remove from q every element occurring in p (order kept)
Minus(q, p) == IF q = <<>> THEN <<>> ELSE (IF Has(p, Head(q)) THEN <<>> ELSE <<Head(q)>>) \o Minus(Tail(q), p)
RemoveFirst(q, v) == LET i == CHOOSE i \in DOMAIN q : q[i] = v /\ \A j \in 1..(i-1) : q[j] # v
                     IN SubSeq(q, 1, i-1) \o SubSeq(q, i+1, Len(q))
Log(op, a) == h' = Append(h, [op |-> op, a |-> a, res |-> res', q |-> mem', d |-> disk', err |-> err'])
NoObj == <<"none">>
Init == mem = <<>> /\ disk = <<>> /\ abs = <<>> /\ res = "-" /\ err = FALSE /\ h = <<>> /\ old = NoObj
\* ---- durable sub-database operations on the entry at the key (results as the Suber methods document them)
SdbAdd(v) == IF IsSet /\ Has(disk, v) THEN [d |-> disk, r |-> FALSE] ELSE [d |-> Append(disk, v), r |-> TRUE]
SdbPut(vs) == LET new == IF IsSet THEN Minus(Dedup(vs, <<>>), disk) ELSE vs
              IN [d |-> disk \o new, r |-> new # <<>>]
\* ---- operations
Push(v) ==
  /\ Len(mem) < MaxLen
  /\ LET unique == ~IsSet \/ ~Has(mem, v)
         a == SdbAdd(v) IN
     /\ mem' = IF unique THEN Append(mem, v) ELSE mem
     /\ disk' = a.d
     /\ err' = (err \/ (unique /\ ~a.r))
     /\ abs' = IF IsSet /\ Has(abs, v) THEN abs ELSE Append(abs, v)
     /\ res' = "T"
  /\ Log("push", v) /\ UNCHANGED old
Extend(vs) ==       \* Durq.extend / Dusq.update
  /\ Len(mem) + Len(vs) <= MaxLen
  /\ IF IsSet
     THEN LET new == Minus(Dedup(vs, <<>>), mem)  p == SdbPut(vs) IN
          /\ mem' = mem \o new
          /\ disk' = IF new # <<>> THEN p.d ELSE disk
          /\ err' = (err \/ (new # <<>> /\ ~p.r))
          /\ res' = IF new # <<>> THEN "T" ELSE "F"
          /\ abs' = abs \o Minus(Dedup(vs, <<>>), abs)
     ELSE IF vs = <<>> THEN res' = "F" /\ UNCHANGED <<mem, disk, err, abs>>
          ELSE LET p == SdbPut(vs) IN
               /\ mem' = mem \o vs /\ disk' = p.d /\ err' = (err \/ ~p.r) /\ res' = "T" /\ abs' = abs \o vs
  /\ Log("extend", vs) /\ UNCHANGED old
Pull ==
  /\ IF mem = <<>>
     THEN /\ err' = (err \/ disk # <<>>)              \* cache empty but pop() returned a value
          /\ disk' = IF disk = <<>> THEN disk ELSE Tail(disk)
          /\ res' = "None" /\ UNCHANGED mem
     ELSE /\ err' = (err \/ disk = <<>>)
          /\ disk' = IF disk = <<>> THEN disk ELSE Tail(disk)
          /\ mem' = Tail(mem) /\ res' = Head(mem)
  /\ abs' = IF abs = <<>> THEN abs ELSE Tail(abs)
  /\ Log("pull", "-") /\ UNCHANGED old
Clear ==
  /\ IF mem = <<>> THEN res' = "F" /\ UNCHANGED <<mem, disk, err>>
     ELSE /\ mem' = <<>> /\ disk' = <<>> /\ res' = "T"
          /\ err' = (err \/ disk = <<>>)              \* rem() returned False
  /\ abs' = <<>>
  /\ Log("clear", "-") /\ UNCHANGED old
Remove(v) ==        \* Dusq only
  /\ IsSet
  /\ IF ~Has(mem, v) THEN res' = "F" /\ UNCHANGED <<mem, disk, err>>
     ELSE /\ mem' = RemoveFirst(mem, v) /\ res' = "T"
          /\ disk' = IF Has(disk, v) THEN RemoveFirst(disk, v) ELSE disk
          /\ err' = (err \/ ~Has(disk, v))
  /\ abs' = IF Has(abs, v) THEN RemoveFirst(abs, v) ELSE abs
  /\ Log("remove", v) /\ UNCHANGED old
\* ---- environment
Reopen ==    \* store closed and reopened, a fresh object injected at the same key: sync() reads the durable copy
  /\ mem' = disk /\ res' = "-" /\ UNCHANGED <<disk, abs, err>>
  /\ old' = mem        \* the abandoned object keeps its cache; it may be injected again later (ResyncOld)
  /\ Log("reopen", "-")
Resync ==    \* store closed and reopened, the same object injected again and sync(force=True)
  /\ mem' = (IF disk # <<>> THEN disk ELSE mem) /\ disk' = (IF disk # <<>> THEN disk ELSE mem)
  /\ res' = "-" /\ UNCHANGED <<abs, err>>
  /\ Log("resync", "-") /\ UNCHANGED old
ResyncOld == \* store closed and reopened, the object abandoned at an earlier Reopen injected again and sync(force=True):
             \* it must take over the durable content (when there is none, sync() pins the object's own content, as documented)
  /\ old # NoObj
  /\ mem' = (IF disk # <<>> THEN disk ELSE old) /\ disk' = (IF disk # <<>> THEN disk ELSE old)
  /\ abs' = (IF disk # <<>> THEN abs ELSE old)
  /\ res' = "-" /\ old' = NoObj /\ UNCHANGED err
  /\ Log("resyncold", "-")
Seqs(n) == UNION {[1..k -> Vals] : k \in 0..n}
Next == /\ Len(h) < MaxOps
        /\ \/ \E v \in Vals : Push(v) \/ Remove(v)
           \/ \E vs \in Seqs(2) : Extend(vs)
           \/ Pull \/ Clear \/ Reopen \/ Resync \/ ResyncOld
Spec == Init /\ [][Next]_vars
-----------------------------------------------------------------------------
MCView == <<mem, disk, abs, res, err, old, Len(h)>>
\* C23: the cache is the abstract queue/set, the durable copy always equals it, and no mismatch is ever signalled
Mirror == disk = mem
IsModel == mem = abs
NoMismatch == ~err
SetUnique == IsSet => \A i, j \in DOMAIN mem : mem[i] = mem[j] => i = j
\* FIFO: a pull returns the oldest element (action property over the abstract queue)
FifoPull == [][(Len(h') > Len(h) /\ h'[Len(h')].op = "pull") =>
                 (IF abs = <<>> THEN res' = "None" ELSE res' = Head(abs) /\ abs' = Tail(abs))]_vars
====
