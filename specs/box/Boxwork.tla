---- MODULE Boxwork ----
\* hio.base.hier.boxing Boxer: hierarchical state machine of boxes (property C25).
\* A box tree is given by Over (parent or "none") and Unders (ordered children, the first one is the primary under).
\* The active pile is Pile(active): the overs of the active box, the box, and its chain of primary unders.
\* One pass of Boxer.run after a tick is one action: the transition acts (goacts) are evaluated top-down over the
\* active pile, in declaration order; `armed` lists the ones whose condition holds, in that order; the first whose
\* entry preconditions hold (no box to be entered is in `prefail`) fires.  `log` is the action trace of that pass.
\* Every box has two acts (1, 2) in each context so that declaration order is visible.
EXTENDS Naturals, Sequences, FiniteSets, TLC
CONSTANTS Trees,      \* sequence of box forests: [over |-> [box -> box|"none"], unders |-> [box -> Seq(box)], pile, depth]
          MaxPasses
VARIABLES tree, active, log, passes, prev, fired, ended
vars == <<tree, active, log, passes, prev, fired, ended>>
T == Trees[tree]
Boxes == DOMAIN T.over
\* the pile of a box: its overs (top down), the box, its chain of primary unders.  Each forest record carries the piles
\* and depths precomputed by the generator of the constant (PileDef/DepthDef below define them and are checked by
\* PilesOk), which keeps TLC from re-deriving them in every state.
RECURSIVE Ups(_)
Ups(b) == IF T.over[b] = "none" THEN <<>> ELSE Ups(T.over[b]) \o <<T.over[b]>>
RECURSIVE Downs(_)
Downs(b) == IF T.unders[b] = <<>> THEN <<>> ELSE <<T.unders[b][1]>> \o Downs(T.unders[b][1])
PileDef(b) == Ups(b) \o <<b>> \o Downs(b)
Pile(b) == T.pile[b]
Depth(b) == T.depth[b]
PilesOk == \A b \in Boxes : T.pile[b] = PileDef(b) /\ T.depth[b] = Len(Ups(b))
Rev(q) == [i \in 1..Len(q) |-> q[Len(q) + 1 - i]]
InSeq(q, x) == \E i \in DOMAIN q : q[i] = x
Act(k, b, i) == [k |-> k, b |-> b, i |-> i]
RECURSIVE Each(_, _)        \* both acts of every listed context kind, box by box
Each(q, kinds) == IF q = <<>> THEN <<>>
                  ELSE LET RECURSIVE K(_)
                           K(ks) == IF ks = <<>> THEN <<>> ELSE <<Act(Head(ks), Head(q), 1), Act(Head(ks), Head(q), 2)>> \o K(Tail(ks))
                       IN K(kinds) \o Each(Tail(q), kinds)
ExDo(q) == Each(q, <<"exact">>)
RexDo(q) == Each(q, <<"rexact">>)
RenDo(q) == Each(q, <<"remark", "renact">>)
EnDo(q) == Each(q, <<"enmark", "enact">>)
\* documented transition from the active pile `nears` to the pile of `far`:
\* fork index = first i with far = nears[i] (forced re-entry) or fars[i] # nears[i]
Fork(nears, fars, far) == LET Hit(i) == i > Len(fars) \/ far = nears[i] \/ fars[i] # nears[i]
                          IN CHOOSE i \in 1..Len(nears) : Hit(i) /\ \A j \in 1..(i-1) : ~Hit(j)
Quad(near, far) == LET nears == Pile(near)  fars == Pile(far)  i == Fork(nears, fars, far) IN
                   [exdos |-> Rev(SubSeq(nears, i, Len(nears))), endos |-> SubSeq(fars, i, Len(fars)),
                    rexdos |-> Rev(SubSeq(nears, 1, i - 1)), rendos |-> SubSeq(fars, 1, i - 1)]
PreOk(q, prefail) == \A i \in DOMAIN q : q[i] \notin prefail
-----------------------------------------------------------------------------
NoFire == [kind |-> "none", b |-> "none", d |-> "none"]
Init == /\ tree \in DOMAIN Trees /\ active = "none" /\ log = <<>> /\ passes = 0 /\ prev = <<>> /\ fired = NoFire
        /\ ended = FALSE
Start(first, prefail) ==      \* run(): predo of the first pile, then first pass: endo top-down
  /\ active = "none" /\ passes = 0 /\ ~ended /\ first \in Boxes
  /\ IF PreOk(Pile(first), prefail)
     THEN active' = first /\ log' = EnDo(Pile(first)) /\ ended' = FALSE
     ELSE active' = "none" /\ log' = <<>> /\ ended' = TRUE
  /\ passes' = 1 /\ prev' = <<>> /\ fired' = NoFire /\ UNCHANGED tree
\* armed: sequence of <<b, d>> in evaluation order (pile order of b); first with satisfied preconditions fires
RECURSIVE FirstOk(_, _)
FirstOk(armed, prefail) == IF armed = <<>> THEN 0
                           ELSE IF PreOk(Quad(active, Head(armed)[2]).endos, prefail) THEN 1
                           ELSE LET r == FirstOk(Tail(armed), prefail) IN IF r = 0 THEN 0 ELSE r + 1
Pass(armed, prefail) ==
  /\ active # "none" /\ ~ended /\ passes < MaxPasses
  /\ LET k == FirstOk(armed, prefail) IN
     IF k = 0 THEN log' = <<>> /\ UNCHANGED active /\ fired' = NoFire
     ELSE LET q == Quad(active, armed[k][2]) IN
          /\ log' = ExDo(q.exdos) \o RexDo(q.rexdos) \o RenDo(q.rendos) \o EnDo(q.endos)
          /\ active' = armed[k][2] /\ fired' = [kind |-> "go", b |-> armed[k][1], d |-> armed[k][2]]
  /\ prev' = Pile(active) /\ passes' = passes + 1 /\ UNCHANGED <<tree, ended>>
End ==                           \* end requested: every active box exits exactly once, bottom-up
  /\ active # "none" /\ ~ended
  /\ log' = ExDo(Rev(Pile(active))) /\ prev' = Pile(active) /\ active' = "none" /\ ended' = TRUE /\ fired' = [kind |-> "end", b |-> "none", d |-> "none"]
  /\ UNCHANGED <<tree, passes>>
\* armed lists: up to two armed transition acts, boxes in pile order
PF == {{}} \cup {{b} : b \in Boxes}
\* armed transition acts of one pass: none, one, or two (a second one matters only when the entry preconditions of the
\* first one fail: "keep trying"); X(a, pf) lets an extending module record the choice
PassAny(X(_, _)) ==
  /\ active # "none"
  /\ LET p == Pile(active) IN
     \/ \E pf \in PF : Pass(<<>>, pf) /\ X(<<>>, pf)
     \/ \E i \in DOMAIN p, d \in Boxes, pf \in PF : Pass(<< <<p[i], d>> >>, pf) /\ X(<< <<p[i], d>> >>, pf)
     \/ \E pf \in PF \ {{}} : \E i \in DOMAIN p, d \in Boxes :
            /\ ~PreOk(Quad(active, d).endos, pf)
            /\ \E j \in (i+1)..Len(p), e \in Boxes :
                  LET a == << <<p[i], d>>, <<p[j], e>> >> IN Pass(a, pf) /\ X(a, pf)
     \* two armed acts, the first of which is taken: the second one (of a box further down the pile that is being left) is
     \* not even looked at - one transition per pass
     \/ \E i \in DOMAIN p, d \in Boxes :
            /\ PreOk(Quad(active, d).endos, {})
            /\ \E j \in (i+1)..Len(p), e \in Boxes \ {d} :
                  LET a == << <<p[i], d>>, <<p[j], e>> >> IN Pass(a, {}) /\ X(a, {})
Next == (\E f \in Boxes, pf \in PF : Start(f, pf)) \/ PassAny(LAMBDA a, pf : TRUE) \/ End
Spec == Init /\ [][Next]_vars
-----------------------------------------------------------------------------
\* C25, clause by clause, over the log of the last pass
Kinds(ks) == SelectSeq(log, LAMBDA a : a.k \in ks)
Pos(k, b, i) == CHOOSE p \in DOMAIN log : log[p] = Act(k, b, i)
BoxesOf(ks) == {log[p].b : p \in {q \in DOMAIN log : log[q].k \in ks}}
PostPile == IF active = "none" THEN <<>> ELSE Pile(active)
SetOf(q) == {q[i] : i \in DOMAIN q}
Kept == BoxesOf({"rexact"})
BottomUp(ks) == \A p, q \in DOMAIN log : (p < q /\ log[p].k \in ks /\ log[q].k \in ks) => Depth(log[p].b) >= Depth(log[q].b)
TopDown(ks) == \A p, q \in DOMAIN log : (p < q /\ log[p].k \in ks /\ log[q].k \in ks) => Depth(log[p].b) <= Depth(log[q].b)
ExitBottomUp == BottomUp({"exact"}) /\ BottomUp({"rexact"})
EnterTopDown == TopDown({"remark", "renact"}) /\ TopDown({"enmark", "enact"})
PhaseOrder == \A p, q \in DOMAIN log : p < q =>
                 LET r(k) == CASE k = "exact" -> 1 [] k = "rexact" -> 2 [] k \in {"remark", "renact"} -> 3 [] OTHER -> 4
                 IN r(log[p].k) <= r(log[q].k)
DeclOrder == \A p, q \in DOMAIN log : (p < q /\ log[p].k = log[q].k /\ log[p].b = log[q].b) => log[p].i < log[q].i
OnceEach == \A p, q \in DOMAIN log : log[p] = log[q] => p = q
\* on a transition (passes > 1, fired a pair): exited and kept partition the previous pile; entered and kept the new one
SetsExact == (fired.kind = "go" /\ passes > 1) =>
               /\ BoxesOf({"exact"}) \cup Kept = SetOf(prev) /\ BoxesOf({"exact"}) \cap Kept = {}
               /\ BoxesOf({"enact"}) \cup Kept = SetOf(PostPile) /\ BoxesOf({"enact"}) \cap Kept = {}
               /\ BoxesOf({"renact"}) = Kept /\ BoxesOf({"remark"}) = Kept /\ BoxesOf({"enmark"}) = BoxesOf({"enact"})
               /\ Kept \subseteq SetOf(prev) \cap SetOf(PostPile)
               /\ fired.d \in BoxesOf({"enact"})                    \* the destination itself is always (re-)entered
NoActsWhenNotFired == (fired.kind = "none" /\ passes > 1) => log = <<>>
EndExitsAll == fired.kind = "end" => /\ BoxesOf({"exact"}) = SetOf(prev) /\ Len(log) = 2 * Len(prev)
                                  /\ \A a \in SetOf(log) : a.k = "exact"
====
