---- MODULE BoxworkGen ----
\* G1: every (tree, active box, armed transition acts, failing precondition) -> (action trace, new active box)
EXTENDS Boxwork, Json
VARIABLES pre, act
gvars == <<vars, pre, act>>
GInit == Init /\ pre = "none" /\ act = [op |-> "init"]
GNext == \/ \E f \in Boxes, pf \in PF : Start(f, pf) /\ pre' = active /\ act' = [op |-> "start", first |-> f, pf |-> pf]
         \/ PassAny(LAMBDA a, pf : pre' = active /\ act' = [op |-> "pass", armed |-> a, pf |-> pf])
         \/ End /\ pre' = active /\ act' = [op |-> "end"]
GSpec == GInit /\ [][GNext]_gvars
Emit == act.op = "init" \/ PrintT(<<"TR", ToJson([tree |-> tree, pre |-> pre, act |-> act, log |-> log, post |-> active, ended |-> ended])>>)
====
