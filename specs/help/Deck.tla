---- MODULE Deck ----
(* hio.help.decking.Deck: the double ended queue every message path of the library uses (memo rx/tx queues, tcp/http
   message queues).  Beyond the listed properties.  Deck adds to collections.deque the pair push / pull:
     push(x)            appends x on the right unless x is None; answers whether it did
     pull(emptive)      removes and returns the leftmost element; on an empty deck None (emptive) or IndexError
   so that `while (x := deck.pull()) is not None` drains exactly what was pushed, in order, falsy elements included.
   Elements: "None" stands for None, "F" for a falsy element (False / "" / 0), the others are ordinary values. *)
EXTENDS Naturals, Sequences, TLC
CONSTANTS Vals, MaxLen, MaxOps
VARIABLES q, h
vars == <<q, h>>
None == "None"
Elems == Vals \cup {"F"}
Init == q = <<>> /\ h = <<>>
Rec(op, a, res) == h' = Append(h, [op |-> op, a |-> a, res |-> res, q |-> q'])
More == Len(h) < MaxOps
Push(x) == /\ More /\ Len(q) < MaxLen /\ q' = (IF x = None THEN q ELSE Append(q, x)) /\ Rec("push", x, IF x = None THEN "False" ELSE "True")
Pull(emptive) == /\ More
                 /\ IF q = <<>> THEN q' = q /\ Rec("pull", emptive, IF emptive THEN None ELSE "IndexError")
                    ELSE q' = Tail(q) /\ Rec("pull", emptive, Head(q))
Append_(x) == More /\ Len(q) < MaxLen /\ q' = Append(q, x) /\ Rec("append", x, None)        \* deque.append takes None too
AppendLeft(x) == More /\ Len(q) < MaxLen /\ q' = <<x>> \o q /\ Rec("appendleft", x, None)
Extend(xs) == More /\ Len(q) + Len(xs) <= MaxLen /\ q' = q \o xs /\ Rec("extend", xs, None)
Pop == /\ More /\ IF q = <<>> THEN q' = q /\ Rec("pop", "-", "IndexError")
                  ELSE q' = SubSeq(q, 1, Len(q) - 1) /\ Rec("pop", "-", q[Len(q)])
Clear == More /\ q' = <<>> /\ Rec("clear", "-", None)
Next == \/ \E x \in Elems \cup {None} : Push(x) \/ Append_(x) \/ AppendLeft(x)
        \/ \E e \in BOOLEAN : Pull(e)
        \/ \E x, y \in Elems : Extend(<<x, y>>)
        \/ Pop \/ Clear
Spec == Init /\ [][Next]_vars
MCView == <<q, Len(h)>>
\* push never stores None; a deck filled through push alone never holds None, so pull() = None means empty
Last == h'[Len(h')]
PushNeverNone == [][(Last.op = "push" /\ Last.a = None) => q' = q]_vars
PullIsFifo == [][(Last.op = "pull" /\ q # <<>>) => (Last.res = Head(q) /\ q' = Tail(q))]_vars
EmptivePullNeverRaises == [][(Last.op = "pull" /\ Last.a = TRUE) => Last.res # "IndexError"]_vars
====
