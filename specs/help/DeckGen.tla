---- MODULE DeckGen ----
EXTENDS Deck, Json
Dump == (Len(h) = MaxOps) => PrintT(<<"BH", ToJson(h)>>)
====
