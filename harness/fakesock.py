"""Scripted sockets for driving hio's TCP/TLS/HTTP classes without a kernel.

FakeConn   a connected stream socket whose send()/recv()/do_handshake() results follow per-call plans
           (accept k bytes, would-block, raise an errno / ssl error, deliver a chunk, EOF).
FakeListen a listening socket whose accept() hands out queued FakeConns or would-blocks.
FakeSocketModule  stands in for the `socket` module inside hio.core.tcp.{serving,clienting}: every socket it creates
           is registered (strong reference) with its open/closed state, so leaks cannot hide behind garbage collection.
"""
import errno
import socket as realsocket
import ssl


def wouldblock(tls=False, write=False):
    if tls:
        if write:
            return ssl.SSLWantWriteError(ssl.SSL_ERROR_WANT_WRITE, "The operation did not complete (write)")
        return ssl.SSLWantReadError(ssl.SSL_ERROR_WANT_READ, "The operation did not complete (read)")
    return BlockingIOError(errno.EAGAIN, "Resource temporarily unavailable")


def fault(name):
    """exception object for a connection-level fault name: an errno name, or 'SSLEOF' """
    if name == "SSLEOF":
        return ssl.SSLEOFError(ssl.SSL_ERROR_EOF, "EOF occurred in violation of protocol")
    if name == "SSLERR":      # any other failure of the TLS handshake (bad record, no shared cipher, certificate refused, ...)
        return ssl.SSLError(ssl.SSL_ERROR_SSL, "[SSL] handshake failure")
    code = getattr(errno, name)
    cls = {errno.ECONNRESET: ConnectionResetError, errno.EPIPE: BrokenPipeError,
           errno.ECONNREFUSED: ConnectionRefusedError, errno.ETIMEDOUT: TimeoutError}.get(code, OSError)
    return cls(code, name)


class FakeConn:
    """connected socket; plans are lists consumed one entry per call:
       send plan entry:  int k (accept min(k, len) bytes) | "block" | "blockw" | ("fault", name)
       recv plan entry:  bytes chunk (may be shorter than asked) | "block" | "eof" | ("fault", name)
       handshake plan entry: "ok" | "block" | "blockw" | ("fault", name)
       when a plan is exhausted: send accepts everything, recv would-blocks, handshake succeeds"""

    def __init__(self, ca=("127.0.0.1", 50001), ha=("127.0.0.1", 56000), tls=False, registry=None):
        self.ca, self.ha, self.tls = ca, ha, tls
        self.sendplan, self.recvplan, self.hsplan = [], [], []
        self.wire = bytearray()       # bytes the "kernel" accepted from the code under test
        self.inbox = bytearray()      # bytes queued by the peer, handed out when the recv plan is empty
        self.closed = False
        self.shut = False
        self.calls = []
        self.budget = None            # when not None: recv hands out at most `budget` inbox bytes in chunks of `chunksz`,
        self.chunksz = 1              # then answers `tail` ("block" | "eof" | ("fault", name)) once and "block" afterwards
        self.tail = "block"
        self.registry = registry
        if registry is not None:
            registry.append(self)

    def script_recv(self, budget, chunksz, tail):
        self.budget, self.chunksz, self.tail = budget, max(1, chunksz), tail
        if isinstance(tail, (tuple, list)) and tail[1] == "ECONNRESET":
            # the reset has already arrived in the kernel while buffered data can still be read: from now on the socket
            # is not connected any more (getpeername() fails), as on a real socket
            self.peer_gone = True

    # -- socket API used by hio
    def setblocking(self, flag):
        pass

    def setsockopt(self, *a):
        pass

    def getsockopt(self, *a):
        return 1 << 20

    def getpeername(self):
        if self.closed:
            raise OSError(errno.EBADF, "Bad file descriptor")
        if getattr(self, "peer_gone", False):      # the peer reset the connection: the socket is no longer connected
            raise OSError(errno.ENOTCONN, "Transport endpoint is not connected")
        return self.ca

    def getsockname(self):
        return self.ha

    def fileno(self):
        return -1 if self.closed else 99

    def _dead(self):
        if self.closed:
            raise OSError(errno.EBADF, "Bad file descriptor")

    def send(self, data):
        self._dead()
        self.calls.append("send")
        step = self.sendplan.pop(0) if self.sendplan else len(data)
        if step == "block":
            raise wouldblock(self.tls, write=False)
        if step == "blockw":
            raise wouldblock(self.tls, write=True)
        if isinstance(step, (tuple, list)):
            raise fault(step[1])
        k = min(int(step), len(data))
        self.wire.extend(bytes(data[:k]))
        return k

    def recv(self, n):
        self._dead()
        self.calls.append("recv")
        if self.recvplan:
            step = self.recvplan.pop(0)
        elif self.budget is not None:
            if self.budget > 0:
                k = min(self.budget, self.chunksz, n)
                step = bytes(self.inbox[:k])
                del self.inbox[:k]
                self.budget -= k
            else:
                step, self.tail = self.tail, "block"
        elif self.inbox:
            step = bytes(self.inbox[:n])
            del self.inbox[:n]
        else:
            step = "block"
        if step == "block":
            raise wouldblock(self.tls)
        if step == "blockw":
            raise wouldblock(self.tls, write=True)
        if step == "eof":
            return b""
        if isinstance(step, (tuple, list)):
            raise fault(step[1])
        assert len(step) <= n
        return bytes(step)

    def do_handshake(self):
        self._dead()
        self.calls.append("handshake")
        step = self.hsplan.pop(0) if self.hsplan else "ok"
        if step == "block":
            raise wouldblock(True)
        if step == "blockw":
            raise wouldblock(True, write=True)
        if isinstance(step, (tuple, list)):
            raise fault(step[1])

    def connect_ex(self, ha):
        self.ca_local = ("127.0.0.1", 50009)
        return 0

    def shutdown(self, how):
        if self.closed:
            raise OSError(errno.EBADF, "Bad file descriptor")
        if getattr(self, "rst", False):
            # the connection was reset by its peer: the kernel has nothing left to shut down (the descriptor stays open)
            raise OSError(errno.ENOTCONN, "Transport endpoint is not connected")
        self.shut = True

    def close(self):
        self.closed = True


class FakeListen:
    def __init__(self, ha=("127.0.0.1", 56000), registry=None):
        self.ha = ha
        self.pending = []
        self.closed = False
        self.registry = registry
        if registry is not None:
            registry.append(self)

    def setblocking(self, flag):
        pass

    def setsockopt(self, *a):
        pass

    def getsockopt(self, *a):
        return 1 << 20

    def bind(self, ha):
        if ha[1]:
            self.ha = (ha[0] or "127.0.0.1", ha[1])

    def listen(self, n):
        pass

    def getsockname(self):
        return self.ha

    def accept(self):
        if self.closed:
            raise OSError(errno.EBADF, "Bad file descriptor")
        if not self.pending:
            raise BlockingIOError(errno.EAGAIN, "Resource temporarily unavailable")
        c = self.pending.pop(0)
        return c, c.ca

    def shutdown(self, how):
        if self.closed:
            raise OSError(errno.EBADF, "Bad file descriptor")

    def close(self):
        self.closed = True


class FakeSocketModule:
    """replacement for the `socket` module attribute of hio.core.tcp.serving / clienting"""

    def __init__(self, ha=("127.0.0.1", 56000)):
        self.registry = []        # every socket ever created or accepted, strong references
        self.tls = False          # sockets made by socket() speak the ssl would-block vocabulary when True
        self.next_connect = None  # answer of the next connect_ex() call: 0 | errno value (consumed once; default 0)
        self.bind_fail = False    # the next bind() fails with EADDRINUSE (consumed once)
        self.ha = ha
        self.listeners = []
        for k in dir(realsocket):
            if k.isupper():
                setattr(self, k, getattr(realsocket, k))
        self.error = realsocket.error
        self.timeout = realsocket.timeout
        self.gaierror = realsocket.gaierror

    def socket(self, family=None, kind=None, *a):
        # hio opens listen sockets and client sockets with the same call; which one it is shows at bind()/connect_ex()
        s = DualSocket(self)
        return s

    def open_sockets(self):
        return [s for s in self.registry if not s.closed]

    def __getattr__(self, name):
        return getattr(realsocket, name)


class DualSocket(FakeConn):
    """a socket made by FakeSocketModule.socket(): becomes a listener on bind(), a client connection on connect_ex()"""

    def __init__(self, mod):
        super().__init__(ca=mod.ha, ha=("127.0.0.1", 50009), tls=mod.tls, registry=mod.registry)
        self.mod = mod
        self.pending = []
        self.listening = False
        self.refuse = 0           # connect_ex results to return before succeeding

    def bind(self, ha):
        self._dead()
        if self.mod.bind_fail:
            self.mod.bind_fail = False
            raise OSError(errno.EADDRINUSE, "Address already in use")
        self.listening = True
        self.ha = (ha[0] or "127.0.0.1", ha[1] or 56000)
        self.mod.listeners.append(self)

    def listen(self, n):
        pass

    def accept(self):
        self._dead()
        if not self.pending:
            raise BlockingIOError(errno.EAGAIN, "Resource temporarily unavailable")
        c = self.pending.pop(0)
        return c, c.ca

    def connect_ex(self, ha):
        self._dead()
        res, self.mod.next_connect = self.mod.next_connect or 0, None
        if res:
            return res
        self.ca = ha
        return 0

    def getpeername(self):
        self._dead()
        return self.ca
