"""C17 - chunked transfer coding decodes exactly; chunk sizes that are not plain hex digits are rejected.

MC:   specs/http/ChunkFrame.tla: (i) RoundTrip - for every body <= N bytes, every division into chunks, every choice of
      chunk extensions and 0-2 trailer fields, the receiver's state machine decodes the encoding to exactly that body and
      those trailers; (ii) the classification of every chunk-size string over {0,1,a,-,+,x,_,blank} up to 4 symbols into
      accept (1*HEX, with its value) / reject / don't-care (hex digits with surrounding blanks).
S->C: (i) every case is serialised with the real packChunk (extensions and trailers added by the harness) and decoded by
      the real parseChunk, Requestant and Respondent, whole, byte by byte and in every 1-cut; (ii) every size string is
      put into an otherwise valid chunked message: accepted ones must decode a body of exactly that size, rejected ones
      must be reported as an error (errored flag / HTTPException), never decoded, never a foreign exception.
"""
from .. import core

TRICKY = b"a\r\n0;\nz\r"          # body bytes that look like framing


class Dummy:
    tymeout = 1.0


def wire_of(case):
    from hio.core.http import httping
    n = case["n"]
    body = TRICKY[:n]
    out = bytearray()
    pos = 0
    for k, ext in zip(case["div"] or [], case["exts"] or []):
        piece = httping.packChunk(body[pos:pos + k])
        pos += k
        if ext:
            i = piece.index(b"\r\n")
            piece = piece[:i] + b";x=1;y" + piece[i:]
        out.extend(piece)
    out.extend(b"0" + (b";last=z" if case["lastext"] else b"") + b"\r\n")
    # header text is latin-1 on the wire (RFC 7230): the second trailer value has bytes that are not ASCII (nor valid UTF-8)
    vals = [b"v1", b"v\xe9\xff 2"]
    for i in range(case["trailers"]):
        out.extend(b"T%d: %s\r\n" % (i + 1, vals[i]))
    out.extend(b"\r\n")
    return bytes(out), body, [("t%d" % (i + 1), vals[i].decode("iso-8859-1")) for i in range(case["trailers"])]


def decode_raw(frags):
    """the bare parseChunk generator, re-created per chunk as the message parsers do"""
    from hio.core.http import httping
    raw = bytearray()
    body, trails = bytearray(), []
    gen = httping.parseChunk(raw)
    done = False
    for f in frags:
        raw.extend(f)
        while not done:
            r = next(gen)
            if r is None:
                break
            size, parms, tr, chunk = r
            if size:
                body.extend(chunk)
                gen = httping.parseChunk(raw)
            else:
                trails = sorted((k.lower(), v) for k, v in tr.items())
                done = True
    return {"body": bytes(body), "trails": trails, "done": done, "left": bytes(raw), "errored": False}


def decode_msg(kind, head, frags):
    from hio.core.http import serving, clienting
    p = serving.Requestant(msg=bytearray(), remoter=Dummy()) if kind == "req" else clienting.Respondent(msg=bytearray(), method="GET")
    p.msg.extend(head)
    for f in frags:
        p.msg.extend(f)
        p.parse()
        if p.parser is None:
            break
    return {"body": bytes(p.body), "trails": sorted((k.lower(), v) for k, v in (p.trails or {}).items()), "done": bool(p.ended),
            "left": bytes(p.msg), "errored": bool(p.errored), "error": p.error}


HEADS = {"req": b"POST /u HTTP/1.1\r\nHost: h\r\nTransfer-Encoding: chunked\r\n\r\n",
         "resp": b"HTTP/1.1 200 OK\r\nTransfer-Encoding: chunked\r\n\r\n"}


def decoders():
    return [("parseChunk", decode_raw), ("Requestant", lambda fr: decode_msg("req", HEADS["req"], fr)),
            ("Respondent", lambda fr: decode_msg("resp", HEADS["resp"], fr))]


def guarded(f, frags):
    from hio.core.http import httping
    try:
        with core.watchdog():
            return f(frags)
    except httping.HTTPException as ex:
        return {"errored": True, "error": str(ex), "body": None, "trails": None, "done": False, "left": None, "http": True}
    except core.Hang:
        return {"raised": "did not return"}
    except Exception as ex:
        return {"raised": "%s: %s" % (type(ex).__name__, ex)}


def frag_sets(data):
    yield "whole", [data]
    yield "bytewise", [data[i:i + 1] for i in range(len(data))]
    for i in range(1, len(data)):
        yield "cut@%d" % i, [data[:i], data[i:]]


def check_case(case):
    data, body, trails = wire_of(case)
    for name, dec in decoders():
        for fname, frags in frag_sets(data):
            r = guarded(dec, frags)
            if "raised" in r:
                return "%s on %r (%s) raised %s" % (name, data, fname, r["raised"])
            if r["errored"]:
                return "%s on %r (%s) reports an error: %s" % (name, data, fname, r.get("error"))
            if not r["done"] or r["left"]:
                return "%s on %r (%s) did not finish (left %r)" % (name, data, fname, r["left"])
            if r["body"] != body:
                return "%s on %r (%s) decodes body %r, encoded was %r" % (name, data, fname, r["body"], body)
            if r["trails"] != trails:
                return "%s on %r (%s) gives trailers %r, encoded were %r" % (name, data, fname, r["trails"], trails)
    return None


def check_size(s, klass, val):
    text = "".join(s).encode()
    if klass == "dontcare":
        return None
    if klass == "accept":
        payload = bytes((i * 7 + 65) % 256 for i in range(val))
        data = text + b"\r\n" + payload + b"\r\n" + (b"0\r\n\r\n" if val else b"\r\n")
        # a size of zero is the last chunk: "0\r\n" + "" + "\r\n" is already complete
        if val == 0:
            data = text + b"\r\n\r\n"
    else:
        data = text + b"\r\nabc\r\n0\r\n\r\n"
    for name, dec in decoders():
        for fname, frags in (("whole", [data]), ("bytewise", [data[i:i + 1] for i in range(len(data))])):
            r = guarded(dec, frags)
            if "raised" in r:
                return "chunk size %r: %s (%s) raised %s" % (text, name, fname, r["raised"])
            if klass == "accept":
                if r["errored"] or r["body"] != payload or not r["done"]:
                    return "chunk size %r (= %d): %s (%s) gives %s" % (text, val, name, fname,
                                                                         "error %s" % r.get("error") if r["errored"] else "body of %d bytes, done=%s" % (len(r["body"]), r["done"]))
            else:
                if not r["errored"]:
                    return "chunk size %r is not 1*HEX but %s (%s) did not report an error (decoded body %r, done=%s)" % (
                        text, name, fname, r["body"], r["done"])
    return None


def run(ctx):
    syms = {"0", "1", "a", "-", "+", "x", "_", " "}
    nb, nl = (5, 3) if ctx.quick else (6, 4)
    base = {"MaxBody": nb, "MaxTrailers": 2, "SizeSyms": syms, "MaxSizeLen": nl}
    for mode in ("coding", "sizes"):
        consts = dict(base, Mode='"%s"' % mode)
        if mode == "sizes":
            consts["MaxSizeLen"] = nl + 1
        r = ctx.tlc("http", "ChunkFrame", core.cfg_text(constants=consts, invariants=["RoundTrip", "SizeClasses"]))
        for v in r.violated:
            ctx.violation("the model violates %s" % v, {"tlc": r.out[-3000:]})
        g = ctx.tlc("http", "ChunkFrameGen", core.cfg_text(constants=dict(base, Mode='"%s"' % mode), constraints=["Emit"]),
                    workers=1).tagged_json("CH")
        if len(g) < 400:
            raise core.MachineryError("dump too small: %d" % len(g))
        for i, rec in enumerate(g):
            if mode == "coding":
                case = rec["case"]
                case["div"], case["exts"] = list(case["div"] or []), list(case["exts"] or [])
                ctx.case(("coding", case["n"], tuple(case["div"]), tuple(case["exts"]), case["lastext"], case["trailers"]),
                         {"case": case, "wire": wire_of(case)[0].decode("latin-1")} if i == 200 else None)
                bad = check_case(case)
                if bad:
                    ctx.violation(bad, {"kind": "coding", "case": case})
            else:
                s = list(rec["s"] or [])
                ctx.case(("size", "".join(s)), {"size": "".join(s), "class": rec["class"]} if i == 77 else None)
                bad = check_size(s, rec["class"], rec["val"])
                if bad:
                    ctx.violation(bad, {"kind": "size", "s": s, "class": rec["class"], "val": rec["val"]})
    ctx.exhaustive = True
    return ctx.finish(rule="coding: one case per (body length <= %d, division into chunks, extension flags, last-chunk extension, 0-2 "
                           "trailers), each decoded by parseChunk, Requestant, Respondent whole, bytewise and in every 1-cut; sizes: one "
                           "case per string <= %d symbols over {0,1,a,-,+,x,_,blank}" % (nb, nl),
                      assumptions=["hex digits with leading/trailing blanks are a don't-care", "extensions and trailers are added by the "
                                   "harness (packChunk has no parameter for them)"])


def replay_case(ctx, case):
    bad = check_case(case["case"]) if case["kind"] == "coding" else check_size(case["s"], case["class"], case["val"])
    return [bad] if bad else []
