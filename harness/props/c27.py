"""C27 - Namer stays a bijection; rejected / no-change operations change nothing.

MC:   Namer.tla, invariant Bijection + action property NoChangeOnReject, exhaustive over the name/addr domains.
S->C: every transition of the model (pre-state, op, args -> result, post-state) is executed on a real Namer
      built in the pre-state; result class and BOTH public mappings must equal the model's.
C->S: random op sequences on a real Namer over a larger domain, validated in batch by NamerTrace.tla with
      Bijection as invariant on every state of every real execution.
"""
import random

from .. import core


def apply_op(hioing, nm, op, n, a):
    try:
        if op == "add":
            r = nm.addNameAddr(n, a)
        elif op == "rem":
            r = nm.remNameAddr(name=n or None, addr=a or None)
        elif op == "chgaddr":
            r = nm.changeAddrAtName(name=n, addr=a)
        elif op == "chgname":
            r = nm.changeNameAtAddr(addr=a, name=n)
        elif op == "clear":
            nm.clearAllNameAddr()
            return "-"
        return "T" if r else "F"
    except hioing.NamerError:
        return "E"
    except Exception as ex:   # any other exception out of the real code is an observable (wrong) outcome
        return "X:" + type(ex).__name__


def asdict(x):
    return dict(x) if isinstance(x, dict) else {}


def run(ctx):
    from hio.help.naming import Namer
    from hio import hioing
    big = not ctx.quick
    names = ["n1", "n2", "n3"] + (["n4"] if big else [])
    addrs = ["a1", "a2", "a3"] + (["a4"] if big else [])
    consts = {"Names": set(names), "Addrs": set(addrs), "NoVal": '""'}
    # 1. MC
    r = ctx.tlc("misc", "Namer", core.cfg_text(constants=consts, invariants=["Bijection"],
                                               properties=["NoChangeOnReject"]))
    for v in r.violated:
        ctx.violation("model violates %s" % v, {"tlc": r.out[-4000:]})
    ctx.exhaustive = True
    # 2. S->C: transition dump
    gconst = {"Names": set(names[:3] if big else names[:2]), "Addrs": set(addrs[:3] if big else addrs[:2]), "NoVal": '""'}
    g = ctx.tlc("misc", "NamerGen", core.cfg_text(spec="GSpec", constants=gconst, constraints=["Emit"]), workers=1)
    trs = [t for t in g.tagged_json("TR") if t["act"]["op"] != "init"]
    if len(trs) < 100:
        raise core.MachineryError("transition dump too small: %d" % len(trs))
    for t in trs:
        pre_n2a = asdict(t["pre"]["n2a"])
        op, n, a = t["act"]["op"], t["act"]["n"], t["act"]["a"]
        if op == "load":       # the constructor's bulk load of (name, addr) pairs
            pairs = [tuple(x) for x in t["act"]["pairs"]]
            try:
                nm = Namer(entries=[(pn or None, pa or None) if i % 2 else (pn, pa) for i, (pn, pa) in enumerate(pairs)])
                res = "T"
            except hioing.NamerError:
                nm, res = Namer(), "E"
            except Exception as ex:
                nm, res = Namer(), "X:" + type(ex).__name__
            n, a = "", str(pairs)
        else:
            nm = Namer(entries=list(pre_n2a.items()))
            assert nm.addrByName == pre_n2a
            res = apply_op(hioing, nm, op, n, a)
        exp_n2a, exp_a2n = asdict(t["post"]["n2a"]), asdict(t["post"]["a2n"])
        case = {"pre": pre_n2a, "op": op, "n": n, "a": a, "expected": {"res": t["res"], "n2a": exp_n2a, "a2n": exp_a2n},
                "got": {"res": res, "n2a": nm.addrByName, "a2n": nm.nameByAddr}}
        ctx.case((tuple(sorted(pre_n2a.items())), op, n, a), case if op in ("chgaddr", "chgname") and t["res"] == "T" else None)
        if res != t["res"]:
            ctx.violation("result of %s(%r,%r) is %s, model says %s" % (op, n, a, res, t["res"]), case)
        elif nm.addrByName != exp_n2a or nm.nameByAddr != exp_a2n:
            ctx.violation("mappings after %s(%r,%r) differ from model" % (op, n, a), case)
        elif nm.countNameAddr != len(exp_n2a) or any(nm.getAddr(k) != v for k, v in exp_n2a.items()) or \
                any(nm.getName(k) != v for k, v in exp_a2n.items()):
            ctx.violation("getters after %s(%r,%r) differ from model" % (op, n, a), case)
    # 3. C->S: random traces, larger domain
    rng = random.Random(ctx.seed)
    tn = ["n%d" % i for i in range(1, 6)]
    ta = ["a%d" % i for i in range(1, 6)]
    ntr, ln = (600, 14) if ctx.quick else (12000, 24)
    traces = []
    for _ in range(ntr):
        nm = Namer()
        tr = []
        for _ in range(ln):
            op = rng.choice(["add", "add", "rem", "chgaddr", "chgname", "add", "rem", "chgaddr", "chgname", "clear"])
            n = rng.choice(tn + [""])
            a = rng.choice(ta + [""])
            if op == "clear":
                n = a = ""
            res = apply_op(hioing, nm, op, n, a)
            tr.append({"op": op, "n": n, "a": a, "res": res,
                       "n2a": [[k, v] for k, v in nm.addrByName.items()],
                       "a2n": [[k, v] for k, v in nm.nameByAddr.items()]})
        traces.append(tr)
    tconst = {"Names": set(tn), "Addrs": set(ta), "NoVal": '""'}
    res = core.validate_traces(ctx, "misc", "NamerTrace",
                               core.cfg_text(spec="TSpec", constants=tconst, constraints=["Progress"],
                                             invariants=["Bijection"]), traces)
    for i, (tr, v) in enumerate(zip(traces, res)):
        ctx.traces += 1
        if v["maxl"] != len(tr) + 1:
            k = max(v["maxl"], 1)
            ctx.violation("real Namer trace rejected by the spec at event %d: %s" % (k, tr[k - 1]),
                          {"trace": tr, "stopped_at": k})
    if res and res[0]["violated"]:
        ctx.violation("Bijection violated on a real trace: %s" % res[0]["violated"], {"n": len(traces)})
    ctx.samples.append({"trace_head": traces[0][:4]})
    return ctx.finish(rule="S->C: every model transition (pre-state,op,args) distinct by that triple; non-trivial = every "
                           "transition (all change or must-not-change state); C->S: random 14/24-op traces over 5x5 domain",
                      assumptions=["names/addresses are non-empty strings or the empty value; other falsy values behave as empty"])
