"""C09 - TCP/TLS byte streams are delivered exactly, in order, under partial I/O; the wire log records exactly the bytes.

MC:   specs/tcp/Conn.tla without faults: Conservation (wire . txbs = everything queued, in order), RxConservation,
      LogExact, SendProgress for every pattern of tx sizes (incl. empty), partial sends, would-block (EAGAIN /
      SSLWantRead / SSLWantWrite), short reads, EOF.
S->C: behaviours of the model (all short ones + tlc -simulate) executed on real Client, ClientTls, Remoter and RemoterTls
      objects whose socket is a scripted fake, and on the connection a real Server / ServerTls accepts from a scripted listen
      socket and services with Server.service() (so that what the server hands to its connections - the wire log - is bound too); after every step txbs, the bytes on the wire, rxbs and both wire logs are
      compared byte for byte.
"""
from .. import core, tcpadapt

FIELDS = ("txbs", "wire", "log", "rxbs", "rlog", "cutoff")


def consts(tls, maxops, maxbytes, faults=(), big=False):
    return {"Conns": {1}, "TxSizes": {0, 1, 3, 8} if big else {0, 1, 3}, "Accepts": {1, 2, 9}, "PeerSizes": {1, 3}, "ChunkSizes": {1, 2},
            "Faults": set(faults), "MaxBytes": maxbytes, "MaxOps": maxops, "Tls": tls, "WithPass": False, "Handshakes": False}


def replay(kind, h):
    if kind.startswith("server"):
        ep = tcpadapt.ServerEndpoint(kind)
        try:
            return replay_on(ep, h)
        finally:
            ep.close()
    return replay_on(tcpadapt.Endpoint(kind), h)


def replay_on(ep, h):
    q = pin = 0
    for k, e in enumerate(h):
        err = ep.apply(e)
        if err:
            return "step %d %s%s raised %s" % (k + 1, e["op"], e["a"], err)
        o = e["obs"]["1"] if isinstance(e["obs"], dict) else e["obs"][0]
        d = tcpadapt.diff(ep.obs(), tcpadapt.expect(o, q, pin), FIELDS)
        if d:
            return "step %d %s%s: %s is %r, should be %r (steps so far %s)" % (
                k + 1, e["op"], e["a"], d[0], d[1], d[2], [(x["op"], x["a"]) for x in h[:k + 1]])
    return None


def run(ctx):
    inv = ["Conservation", "LogExact", "RxConservation", "NeverRaised"]
    props = ["SendProgress", "SiblingUntouched"]
    for tls in (False, True):
        r = ctx.tlc("tcp", "Conn", core.cfg_text(constants=consts(tls, 6 if ctx.quick else 8, 6), invariants=inv,
                                                 properties=props, view="MCView"))
        for v in r.violated:
            ctx.violation("the model violates %s" % v, {"tlc": r.out[-4000:]})
        hs = ctx.tlc("tcp", "ConnGen", core.cfg_text(constants=consts(tls, 3, 4), constraints=["Dump"]),
                     workers=1).tagged_json("BH")
        nex = len(hs)
        nsim, dep = (200, 10) if ctx.quick else (2500, 16)
        hs += ctx.tlc("tcp", "ConnGen", core.cfg_text(constants=consts(tls, dep, 24, big=True), constraints=["Dump"]),
                      workers=1, simulate="num=%d" % nsim, depth=dep + 2).tagged_json("BH")
        if nex < 300 or len(hs) - nex < nsim:
            raise core.MachineryError("behaviour dump too small: %d + %d" % (nex, len(hs) - nex))
        kinds = ("clienttls", "remotertls", "servertls") if tls else ("client", "remoter", "server")
        for i, h in enumerate(hs):
            for kind in kinds:
                ctx.case((kind, tuple((e["op"], str(e["a"])) for e in h)),
                         {"endpoint": kind, "steps": [(e["op"], e["a"]) for e in h]} if i == nex + 7 and kind == kinds[0] else None)
                bad = replay(kind, h)
                if bad:
                    ctx.violation("%s: %s" % (kind, bad), {"kind": kind, "behaviour": h})
    ctx.exhaustive = True
    return ctx.finish(rule="one case per (endpoint class, behaviour); behaviours: all of length 3 + simulated ones of length 10/16 "
                           "(every successor of the last state) over tx sizes {0,1,3} (simulated: also 8), accept counts {1,2,all}, would-block "
                           "variants, peer sends {1,3}, short reads in chunks of 1-2 bytes, EOF",
                      assumptions=["the kernel is a scripted fake socket placed in .cs (TLS classes: wrap() overridden so the same "
                                   "fake is used; would-block is SSLWantRead/SSLWantWrite there)",
                                   "large payloads are represented by the same partial-send patterns on small ones"])


def replay_case(ctx, case):
    bad = replay(case["kind"], case["behaviour"])
    return [bad] if bad else []
