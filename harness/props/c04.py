"""C04 - grouping consecutive doers under tock-0 (not always) DoDoers is observationally transparent.

TLC: every regrouping of the same leaf sequence refines the SAME FlatSched instance (DoistRefine!FlatSpec, leaf
projection of the log included in the refinement mapping). FlatSched is deterministic once the leaf choices are
fixed, so all regroupings have the same leaf events, completion cycle, done flags and forced leaf exits.
Binding: each behaviour of a nested model is replayed on the real nested forest AND on the real flattened forest
with the same scripts; both leaf projections must equal the model's (and therefore each other).
"""
import json

from .. import sched

SHAPES = [
    ("g-mid", ["a", ["G", "b", "c"], "d"]),
    ("g-two", [["G", "a", "b"], ["H", "c", "d"]]),
    ("g-deep", ["a", ["G", "b", ["H", "c"]], "d"]),
    ("g-head", [["G", "a", "b"], "c", "d"]),
    ("g-tail", ["a", "b", ["G", "c", "d"]]),
    ("g-all", [["G", "a", "b", "c", "d"]]),
    ("g-nest2", [["G", "a", ["H", "b", "c"]], "d"]),
    ("g-single", ["a", ["G", "b"], ["H", "c"], "d"]),
]
FLAT = ["a", "b", "c", "d"]


def leafproj(cfg, log):
    return [(e["k"], e["d"], json.dumps(e["t"]), e["o"], tuple(e["a"])) for e in log if cfg["kind"].get(e["d"]) == "leaf"]


def run(ctx):
    q = ctx.quick
    kw = dict(Tocks=[0, 2] if q else [0, 1, 3], MaxSteps=3, Limit=4, Rets=["T", "N"], EnterOuts=["ok", "r"])
    shapes = SHAPES[:3] if q else SHAPES
    refine = [(n, sched.mk(s, **kw)) for n, s in shapes] + [("flat", sched.mk(FLAT, **kw))]
    sched.run_family(ctx, "C04", ["TypeOK"], refine=refine)
    # binding: nested vs flat on the real code
    kwb = dict(Tocks=[0, 2], MaxSteps=2, Limit=3, Rets=["T"], EnterOuts=["ok", "r"])
    kws = dict(Tocks=[0, 1, 2, 3], MaxSteps=5, Limit=7, Tock=2, T0=1, Rets=["T", "F", "N"], EnterOuts=["ok", "r"])
    flat_small, flat_big = sched.mk(FLAT, **kwb), sched.mk(FLAT, **kws)

    def job(item):
        name, shape, big = item
        cfg = sched.mk(shape, **(kws if big else kwb))
        if big:
            r, behs = sched.behaviours(ctx, cfg, simulate="num=%d" % (250 if q else 6000), depth=400)
        else:
            r, behs = sched.behaviours(ctx, cfg)
        return name, cfg, behs, big
    items = [(n, s, False) for n, s in (SHAPES[:4] if q else SHAPES)] + [(n, s, True) for n, s in SHAPES]
    import gc
    for name, cfg, behs, big in sched.parallel(job, items, n=8):
        if not behs:
            raise sched.core.MachineryError("no behaviours for %s" % name)
        fcfg = flat_big if big else flat_small
        gc.collect()
        gc.freeze()
        for i, b in enumerate(behs):
            qq = sched.SCALES[(i + ctx.seed) % 4]
            seed = ctx.seed * 7919 + i
            style = sched.STYLES[(i // 4) % len(sched.STYLES)]     # how the settings reach the Doist / doers pre-wound elsewhere
            rn = sched.replay(cfg, b, q=qq, seed=seed, style=style)
            flav = rn["flav"]
            fscript = {d: v for d, v in b["script"].items() if cfg["kind"][d] == "leaf"}
            rf = sched.replay(fcfg, {"script": fscript}, q=qq, seed=seed, flavours=flav, style=style)
            ctx.traces += 2
            ctx.case((name, big, json.dumps(fscript, sort_keys=True)),
                     {"shape": name, "script": fscript, "leaf_log_head": leafproj(cfg, b["log"])[:6]} if i % 211 == 5 else None)
            exp = leafproj(cfg, b["log"])
            pn, pf = leafproj(cfg, rn["log"]), leafproj(fcfg, rf["log"])
            edone = {d: v for d, v in sched.expected_done(cfg, b, flav).items() if cfg["kind"][d] == "leaf"}
            dn = {d: v for d, v in rn["done"].items() if cfg["kind"][d] == "leaf"}
            # C04 is a relation between two real runs: the nested forest and the same leaves listed flat.
            problems, model_diff = [], []
            if "escaped:Hang" in (rn["phase"], rf["phase"]):
                problems.append("the real run did not return (nested: %s, flat: %s)" % (rn["phase"], rf["phase"]))
            if pn != pf:
                problems.append("nested and flat real runs differ")
            if (rn["tyme"], rn["ddone"], rn["phase"]) != (rf["tyme"], rf["ddone"], rf["phase"]):
                problems.append("completion differs: nested %s flat %s" % ((rn["tyme"], rn["ddone"], rn["phase"]), (rf["tyme"], rf["ddone"], rf["phase"])))
            if dn != {d: v for d, v in rf["done"].items()}:
                problems.append("leaf done flags differ: nested %s flat %s" % (dn, rf["done"]))
            if bool(rn["late"]) != bool(rf["late"]):
                problems.append("life-cycle events after do() returned in only one of the two runs")
            # differences from the model that both runs share belong to C01-C03/C05, not to C04
            if pn != exp:
                model_diff.append("nested real leaf events differ from the model")
            if pf != exp:
                model_diff.append("flat real leaf events differ from the (nested) model")
            if (rn["tyme"], rn["ddone"], rn["phase"]) != (b["tyme"], b["ddone"], b["phase"]):
                model_diff.append("completion differs from model")
            if dn != edone:
                model_diff.append("leaf done flags differ from the model: model %s nested %s" % (edone, dn))
            if problems:
                i0 = next((j for j, (x, y) in enumerate(zip(pn, pf)) if x != y), None)
                ctx.violation("%s [%s]: %s (first nested/flat difference at leaf event %s)" % (problems[0], name, problems, i0),
                              {"shape": name, "config": cfg, "script": fscript, "model": exp, "nested": pn, "flat": pf})
            elif model_diff:
                ctx.divergence("C04 [%s]: %s (nested and flat real runs agree with each other)" % (name, model_diff[0]))
        gc.unfreeze()
    return ctx.finish(rule="refinement of one FlatSched instance by every regrouping (TLC); behaviours of nested models replayed on the "
                           "real nested and the real flattened forest; distinct by (shape, leaf scripts)",
                      assumptions=["tock-0, not-always DoDoers; runs to completion or to a limit (no exceptions), as the property states"])
