"""C25 - boxwork transitions run exit / re-exit / re-enter / enter actions in the documented nested order.

MC:   specs/box/Boxwork.tla over every ordered box forest up to N boxes: the documented transition (exdo bottom-up,
      rexdo bottom-up, rendo top-down, endo top-down, acts in declaration order, nothing when the entry preconditions
      fail, end exits every active box once bottom-up) checked clause by clause (ExitBottomUp, EnterTopDown, PhaseOrder,
      DeclOrder, OnceEach, SetsExact, NoActsWhenNotFired, EndExitsAll).
S->C: every transition of the model (forest, active box, armed transition acts, failing precondition) -> (action
      trace, new active box) is executed on a real Boxer built from real Box objects whose act lists hold logging
      callables; traces and active box must be equal.  Thorough: also random walks over larger forests validated by
      the same model through a trace spec.
"""
import importlib.util
import os

from .. import core

KINDS = {"preacts": None, "remarks": "remark", "renacts": "renact", "enmarks": "enmark", "enacts": "enact",
         "exacts": "exact", "rexacts": "rexact"}


def forests(n):
    if n == 0:
        return [[]]
    out = []
    for k in range(1, n + 1):
        for sub in forests(k - 1):
            for rest in forests(n - k):
                out.append([sub] + rest)
    return out


def label(forest):
    over, unders, cnt = {}, {}, [0]

    def walk(children, parent):
        names = []
        for ch in children:
            cnt[0] += 1
            nm = "b%d" % cnt[0]
            names.append(nm)
            over[nm] = parent
            unders[nm] = walk(ch, nm)
        return names
    walk(forest, "none")
    return over, unders


def all_trees(maxn):
    return [label(f) for n in range(1, maxn + 1) for f in forests(n)]


def trees_tla(trees):
    ts = []
    for over, unders in trees:
        o = " @@ ".join('"%s" :> "%s"' % kv for kv in over.items())
        u = " @@ ".join('"%s" :> <<%s>>' % (k, ", ".join('"%s"' % x for x in v)) for k, v in unders.items())
        def ups(b):
            return [] if over[b] == "none" else ups(over[b]) + [over[b]]

        def downs(b):
            return [] if not unders[b] else [unders[b][0]] + downs(unders[b][0])
        pl = " @@ ".join('"%s" :> <<%s>>' % (b, ", ".join('"%s"' % x for x in ups(b) + [b] + downs(b))) for b in over)
        dp = " @@ ".join('"%s" :> %d' % (b, len(ups(b))) for b in over)
        ts.append("[over |-> (%s), unders |-> (%s), pile |-> (%s), depth |-> (%s)]" % (o, u, pl, dp))
    return "<<" + ",\n ".join(ts) + ">>"


class Rig:
    """a real Boxer over real Boxes for one forest; act lists hold logging callables"""

    def __init__(self, tree):
        from hio.base import tyming
        from hio.base.hier import boxing, holding, bagging
        over, unders = tree
        self.log = []
        self.armed = set()
        self.prefail = set()
        self.tymist = tyming.Tymist()
        self.hold = holding.Hold()
        self.boxer = boxing.Boxer(name="bx", hold=self.hold, tymth=self.tymist.tymen())
        self.bagging = bagging
        boxes = {}
        for name in over:   # preorder: overs come first
            ov = boxes[over[name]] if over[name] != "none" else None
            b = boxing.Box(name=name, hold=self.hold, over=ov, tymth=self.tymist.tymen())
            if ov is not None:
                ov.unders.append(b)
            boxes[name] = b
        for name, b in boxes.items():
            assert [u.name for u in b.unders] == list(unders[name])
            for attr, kind in KINDS.items():
                if kind is None:
                    continue
                getattr(b, attr).extend([self.logger(kind, name, 1), self.logger(kind, name, 2)])
            b.preacts.append(lambda name=name: name not in self.prefail)
            for dname, d in boxes.items():
                b.goacts.append(lambda name=name, dname=dname, d=d: d if (name, dname) in self.armed else None)
        self.boxes = boxes
        self.boxer.boxes = dict(boxes)
        self.gen = None

    def logger(self, kind, name, i):
        def act():
            self.log.append({"k": kind, "b": name, "i": i})
        return act

    def start(self, first, prefail=()):
        """-> True if started (first pass done), False if run() ended in enter"""
        self.prefail = set(prefail)
        self.boxer.first = self.boxes[first]
        self.gen = self.boxer.run(tock=0.0)
        try:
            next(self.gen)
        except StopIteration:
            return False
        self.prefail = set()
        self.gen.send(self.tymist.tyme)
        return True

    def step(self):
        """one pass; -> "yield" | "return:<value>" """
        self.tymist.tick()
        try:
            self.gen.send(self.tymist.tyme)
            return "yield"
        except StopIteration as ex:
            return "return:%s" % ex.value

    def request_end(self):
        self.hold[("", "boxer", "bx", "end")] = self.bagging.Bag(value=True)

    @property
    def active(self):
        return self.boxer.box.name if self.boxer.box is not None else "none"


def run_transition(tree, t):
    """execute one model transition on a fresh real boxer -> dict(log, post, ended) or dict(error)"""
    rig = Rig(tree)
    op = t["act"]["op"]
    try:
        with core.watchdog():
            if op == "start":
                ok = rig.start(t["act"]["first"], t["act"]["pf"])
                return {"log": rig.log, "post": rig.active, "ended": not ok}
            if not rig.start(t["pre"]):
                return {"error": "run() ended in enter without failing preconditions"}
            rig.log.clear()
            if op == "end":
                rig.request_end()
                r = rig.step()
                return {"log": rig.log, "post": rig.active, "ended": r.startswith("return")}
            rig.armed = set((a[0], a[1]) for a in t["act"]["armed"])
            rig.prefail = set(t["act"]["pf"])
            r = rig.step()
            return {"log": rig.log, "post": rig.active, "ended": r.startswith("return")}
    except core.Hang:
        return {"error": "the boxer did not return"}
    except Exception as ex:
        return {"error": "raised %s: %s" % (type(ex).__name__, ex)}


def fmt(log):
    return " ".join("%s:%s.%d" % (a["k"], a["b"], a["i"]) for a in log)


def judge(t, real):
    if "error" in real:
        return real["error"]
    want = {"log": [dict(k=a["k"], b=a["b"], i=a["i"]) for a in t["log"]], "post": t["post"], "ended": t["ended"]}
    if real["log"] != want["log"]:
        return "action trace [%s], documented order is [%s]" % (fmt(real["log"]), fmt(want["log"]))
    if real["post"] != want["post"]:
        return "active box afterwards is %s, should be %s" % (real["post"], want["post"])
    if real["ended"] != want["ended"]:
        return "boxer %s, should have %s" % ("ended" if real["ended"] else "kept running", "ended" if want["ended"] else "kept running")
    return None


INV = ["PilesOk", "ExitBottomUp", "EnterTopDown", "PhaseOrder", "DeclOrder", "OnceEach", "SetsExact", "NoActsWhenNotFired", "EndExitsAll"]


def run(ctx):
    nmc, ngen = (4, 4) if ctx.quick else (5, 5)
    trees = all_trees(nmc)
    gen = {"MCBoxwork.tla": "---- MODULE MCBoxwork ----\nEXTENDS Boxwork\nMCTrees == %s\n====\n" % trees_tla(trees),
           "MCBoxworkGen.tla": "---- MODULE MCBoxworkGen ----\nEXTENDS BoxworkGen\nMCTrees == %s\n====\n" % trees_tla(all_trees(ngen))}
    r = ctx.tlc("box", "MCBoxwork", core.cfg_text(constants={"Trees": "<-MCTrees", "MaxPasses": 3}, invariants=INV), gen=gen)
    for v in r.violated:
        ctx.violation("the model violates %s" % v, {"tlc": r.out[-4000:]})
    gtrees = all_trees(ngen)
    # the dump is sharded over the forests so that 16 single-worker TLC processes print in parallel
    import concurrent.futures
    nsh = 12
    shards = [list(range(s, len(gtrees), nsh)) for s in range(nsh)]

    def dump(idx):
        sub = [gtrees[i] for i in idx]
        g = {"MCBoxworkGen.tla": "---- MODULE MCBoxworkGen ----\nEXTENDS BoxworkGen\nMCTrees == %s\n====\n" % trees_tla(sub)}
        out = ctx.tlc("box", "MCBoxworkGen", core.cfg_text(spec="GSpec", constants={"Trees": "<-MCTrees", "MaxPasses": 2},
                                                           constraints=["Emit"]), gen=g, workers=1)
        return [(idx[t["tree"] - 1], t) for t in out.tagged_json("TR")]

    with concurrent.futures.ThreadPoolExecutor(max_workers=nsh) as ex:
        trs = [x for part in ex.map(dump, [s for s in shards if s]) for x in part]
    if len(trs) < 2000:
        raise core.MachineryError("transition dump too small: %d" % len(trs))
    seen_kinds = set()
    for ti, t in trs:
        real = run_transition(gtrees[ti], t)
        key = (ti, t["pre"], t["act"]["op"], str(t["act"].get("armed")), str(t["act"].get("pf")), t["act"].get("first"))
        interesting = t["act"]["op"] == "pass" and len(t["act"]["armed"]) == 2 and t["log"]
        ctx.case(key, {"tree": {"over": gtrees[ti][0]}, "active": t["pre"], "act": t["act"], "trace": fmt(t["log"]), "post": t["post"]}
                 if interesting and len(t["log"]) > 12 and len(ctx.samples) < 2 else None)
        bad = judge(t, real)
        if bad:
            ctx.violation("forest %s, active %s, %s: %s" % (gtrees[ti][0], t["pre"], {k: v for k, v in t["act"].items()}, bad),
                          {"tree": gtrees[ti], "transition": t, "real": real})
    ctx.exhaustive = True
    return ctx.finish(rule="one case per model transition: (ordered forest of <= %d boxes, active box, start | end | pass with <= 2 "
                           "armed transition acts and <= 1 failing precondition); a second armed act only where the first one's "
                           "preconditions fail" % ngen,
                      assumptions=["boxes are built directly (Box/Boxer objects), not through the make() DSL; redo/afdo acts are "
                                   "not part of the statement and are not compared"])


def replay_case(ctx, case):
    real = run_transition((case["tree"][0], case["tree"][1]), case["transition"])
    bad = judge(case["transition"], real)
    return [bad] if bad else []
