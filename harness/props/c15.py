"""C15 - server-sent events are delivered exactly, whatever the line terminators and the fragmentation.

MC:   specs/http/Sse.tla (event-stream dispatch rules over line kinds, each line with its own terminator CRLF | LF | CR):
      EventsHaveData, IdPersists, LeidIsLastId; byte-level splitting is specs/http/LineFrame.tla with terminators
      (CRLF, LF, CR) (Confluent, checked exhaustively for every string <= 6 and every fragmentation).
S->C: every stream TLC generates (all short ones + tlc -simulate for long ones) is concretised and fed to a real
      EventSource, and to a real Respondent plain (until close) and inside chunked coding with chunk boundaries at the
      cut points: whole, byte by byte, in every 1-cut and (short streams) every 2-cut; events (id, name, data), the
      last event id and retry must equal the model's for every fragmentation.
"""
import itertools

from .. import core

TERM = {"CRLF": b"\r\n", "LF": b"\n", "CR": b"\r"}
KINDS = {"id1", "id2", "ev", "d1", "d2", "dsp", "dnone", "r5", "rbad", "cmt", "unk", "blank"}


def expected(rec):
    evs = [{"id": None if e["id"] == "None" else e["id"], "name": e["name"], "data": "\n".join(e["data"])} for e in (rec["events"] or [])]
    return {"events": evs, "leid": None if rec["leid"] == "None" else rec["leid"], "retry": None if rec["retry"] < 0 else rec["retry"]}


def run_source(frags):
    from hio.core.http import httping
    es = httping.EventSource(raw=bytearray())
    for f in frags:
        es.raw.extend(f)
        es.parse()
    return {"events": [dict(e) for e in es.events], "leid": es.leid, "retry": es.retry}


def run_respondent(frags, chunked):
    from hio.core.http import clienting, httping
    r = clienting.Respondent(msg=bytearray(), method="GET")
    default_retry = r.retry
    head = b"HTTP/1.1 200 OK\r\nContent-Type: text/event-stream\r\n" + (b"Transfer-Encoding: chunked\r\n" if chunked else b"") + b"\r\n"
    r.msg.extend(head)
    r.parse()
    for f in frags:
        r.msg.extend(httping.packChunk(f) if chunked else f)
        r.parse()
    if r.errored:
        return {"errored": r.error}
    return {"events": [dict(e) for e in r.events], "leid": r.leid, "retry": None if r.retry == default_retry else r.retry}


def frag_sets(data, two_cuts):
    yield [data]
    yield [data[i:i + 1] for i in range(len(data))]
    for i in range(1, len(data)):
        yield [data[:i], data[i:]]
    if two_cuts:
        for i, j in itertools.combinations(range(1, len(data)), 2):
            yield [data[:i], data[i:j], data[j:]]


def check_stream(ctx, rec, deep):
    data = b"".join(l["text"].encode() + TERM[l["t"]] for l in rec["lines"])
    want = expected(rec)
    runners = [("EventSource", run_source)]
    if deep:
        runners += [("Respondent", lambda fr: run_respondent(fr, False)), ("Respondent(chunked)", lambda fr: run_respondent(fr, True))]
    n = 0
    for name, f in runners:
        for frags in frag_sets(data, two_cuts=len(data) <= 24 and name == "EventSource"):
            n += 1
            try:
                with core.watchdog():
                    got = f(frags)
            except core.Hang:
                got = {"raised": "did not return"}
            except Exception as ex:
                got = {"raised": "%s: %s" % (type(ex).__name__, ex)}
            if got != want:
                diff = next((k for k in ("raised", "errored", "events", "leid", "retry") if got.get(k) != want.get(k)), "?")
                return "%s fed %r as %r: %s is %r, the stream dispatches %r" % (
                    name, data, [bytes(x) for x in frags][:10], diff, got.get(diff), want.get(diff))
    ctx.parts = getattr(ctx, "parts", 0) + n
    return None


def run(ctx):
    from . import c13
    gen = {"MCLineFrame.tla": "---- MODULE MCLineFrame ----\nEXTENDS LineFrameGen\nE3 == <<\"CRLF\", \"LF\", \"CR\">>\n====\n"}
    r = ctx.tlc("http", "MCLineFrame", core.cfg_text(constants={"Eols": "<-E3", "MaxLen": 6 if ctx.quick else 7, "Algo": '"earliest"', "MaxLine": 0, "Limit": '"held"'},
                                                      invariants=["Confluent", "PrefixOfWhole"]), gen=gen)
    for v in r.violated:
        ctx.violation("the line framing model violates %s" % v, {"tlc": r.out[-3000:]})
    inv = ["EventsHaveData", "IdPersists", "LeidIsLastId"]
    r = ctx.tlc("http", "Sse", core.cfg_text(constants={"Kinds": KINDS, "MaxLines": 3 if ctx.quick else 4}, invariants=inv))
    for v in r.violated:
        ctx.violation("the event stream model violates %s" % v, {"tlc": r.out[-3000:]})
    short = ctx.tlc("http", "SseGen", core.cfg_text(constants={"Kinds": {"id1", "ev", "d1", "dnone", "r5", "cmt", "blank"}, "MaxLines": 4},
                                                     constraints=["Emit"]), workers=1).tagged_json("SSE")
    nsim, dep = (500, 7) if ctx.quick else (6000, 9)
    # long streams: TLC picks random initial states (whole streams) in simulation mode
    long_ = ctx.tlc("http", "SseGen", core.cfg_text(constants={"Kinds": {"id1", "id2", "ev", "d1", "d2", "dsp", "dnone", "r5", "rbad", "unk", "blank"},
                                                                "MaxLines": 5 if ctx.quick else 6}, constraints=["Emit"]),
                    workers=1, simulate="num=%d" % nsim, depth=dep + 2, timeout=600).tagged_json("SSE")
    if len(short) < 400 or len(long_) < nsim // 2:
        raise core.MachineryError("stream dump too small: %d + %d" % (len(short), len(long_)))
    for i, rec in enumerate(short + long_):
        key = tuple((l["text"], l["t"]) for l in rec["lines"])
        ctx.case(key, {"stream": "".join(l["text"] + {"CRLF": "\r\n", "LF": "\n", "CR": "\r"}[l["t"]] for l in rec["lines"]),
                       "dispatch": expected(rec)} if i == len(short) + 3 else None)
        bad = check_stream(ctx, rec, deep=(i % 7 == 0) or i >= len(short))
        if bad:
            ctx.violation(bad, {"stream": rec})
    ctx.exhaustive = True
    return ctx.finish(rule="one case per stream (sequence of (line kind, terminator)); all streams of <= 3 lines over 7 kinds + simulated "
                           "ones of up to 5/6 lines over 11 kinds; each fed whole, bytewise, in every 1-cut (short: every 2-cut) to "
                           "EventSource and (every 7th short, all long) to Respondent plain and chunked",
                      extra={"fragmentations_fed": getattr(ctx, "parts", 0)},
                      assumptions=["a blank LF-terminated line directly after a CR-terminated line is the same bytes as a CRLF and is not "
                                   "generated; streams end with a blank line that is not CR-terminated (a trailing CR waits for the next byte)",
                                   "the BOM and the id-with-NUL rule are not part of the alphabet"])


def replay_case(ctx, case):
    bad = check_stream(ctx, case["stream"], True)
    return [bad] if bad else []
