"""C15 - server-sent events are delivered exactly, whatever the line terminators and the fragmentation.

MC:   specs/http/Sse.tla (event-stream dispatch rules over line kinds, each line with its own terminator CRLF | LF | CR):
      EventsHaveData, IdPersists, LeidIsLastId; byte-level splitting is specs/http/LineFrame.tla with terminators
      (CRLF, LF, CR) (Confluent, checked exhaustively for every string <= 6 and every fragmentation).
S->C: every stream TLC generates (all short ones + tlc -simulate for long ones) is concretised and fed to a real
      EventSource, and to a real Respondent plain (until close) and inside chunked coding with chunk boundaries at the
      cut points: whole, byte by byte, in every 1-cut and (short streams) every 2-cut; events (id, name, data), the
      last event id and retry must equal the model's for every fragmentation.
"""
import itertools

from .. import core

TERM = {"CRLF": b"\r\n", "LF": b"\n", "CR": b"\r"}
KINDS = {"id1", "id2", "id0", "id0n", "ev", "d1", "d2", "dsp", "dnone", "r5", "rbad", "cmt", "unk", "blank"}


def expected(rec):
    evs = [{"id": None if e["id"] == "None" else e["id"], "name": e["name"], "data": "\n".join(e["data"])} for e in (rec["events"] or [])]
    return {"events": evs, "leid": None if rec["leid"] == "None" else rec["leid"], "retry": None if rec["retry"] < 0 else rec["retry"]}


def run_source(frags):
    from hio.core.http import httping
    es = httping.EventSource(raw=bytearray())
    for f in frags:
        es.raw.extend(f)
        es.parse()
    return {"events": [dict(e) for e in es.events], "leid": es.leid, "retry": es.retry}


def run_respondent(frags, chunked):
    from hio.core.http import clienting, httping
    r = clienting.Respondent(msg=bytearray(), method="GET")
    default_retry = r.retry
    head = b"HTTP/1.1 200 OK\r\nContent-Type: text/event-stream\r\n" + (b"Transfer-Encoding: chunked\r\n" if chunked else b"") + b"\r\n"
    r.msg.extend(head)
    r.parse()
    for f in frags:
        r.msg.extend(httping.packChunk(f) if chunked else f)
        r.parse()
    if r.errored:
        return {"errored": r.error}
    return {"events": [dict(e) for e in r.events], "leid": r.leid, "retry": None if r.retry == default_retry else r.retry}


def frag_sets(data, two_cuts):
    yield [data]
    yield [data[i:i + 1] for i in range(len(data))]
    for i in range(1, len(data)):
        yield [data[:i], data[i:]]
    if two_cuts:
        for i, j in itertools.combinations(range(1, len(data)), 2):
            yield [data[:i], data[i:j], data[j:]]


def check_stream(ctx, rec, deep):
    data = b"".join(l["text"].encode() + TERM[l["t"]] for l in rec["lines"])
    want = expected(rec)
    runners = [("EventSource", run_source)]
    if deep:
        runners += [("Respondent", lambda fr: run_respondent(fr, False)), ("Respondent(chunked)", lambda fr: run_respondent(fr, True))]
    n = 0
    for name, f in runners:
        for frags in frag_sets(data, two_cuts=len(data) <= 24 and name == "EventSource"):
            n += 1
            try:
                with core.watchdog():
                    got = f(frags)
            except core.Hang:
                got = {"raised": "did not return"}
            except Exception as ex:
                got = {"raised": "%s: %s" % (type(ex).__name__, ex)}
            if got != want:
                diff = next((k for k in ("raised", "errored", "events", "leid", "retry") if got.get(k) != want.get(k)), "?")
                return "%s fed %r as %r: %s is %r, the stream dispatches %r" % (
                    name, data, [bytes(x) for x in frags][:10], diff, got.get(diff), want.get(diff))
    ctx.parts = getattr(ctx, "parts", 0) + n
    return None


def long_events(ctx):
    """an event whose data line is MAX_LINE_SIZE-1, MAX_LINE_SIZE, MAX_LINE_SIZE+1 bytes long, each terminator, cut around the
    end of that line: every fragmentation must give what the whole feed gives (events or the same refusal)"""
    from hio.core.http import httping
    mx = httping.MAX_LINE_SIZE
    runners = [("EventSource", run_source), ("Respondent", lambda fr: run_respondent(fr, False)),
               ("Respondent(chunked)", lambda fr: run_respondent(fr, True))]

    def outcome(f, frags):
        try:
            with core.watchdog():
                return f(frags)
        except core.Hang:
            return {"raised": "did not return"}
        except Exception as ex:
            return {"raised": type(ex).__name__}
    for delta in (-1, 0, 1):
        for t in ("CRLF", "LF", "CR"):
            line = b"data: " + b"x" * (mx + delta - 6)
            data = b"id: 7" + b"\n" + line + TERM[t] + b"\n" + b"data: after\n\n"
            end = 6 + len(line)
            cuts = [c for c in range(end - 2, end + 4)]
            parts = [[data[:i], data[i:]] for i in cuts] + [[data[:i], data[i:j], data[j:]] for i in cuts for j in cuts if j > i]
            for name, f in runners:
                ctx.case(("long", name, delta, t))
                whole = outcome(f, [data])
                for frags in parts:
                    got = outcome(f, frags)
                    if got != whole:
                        short = lambda o: {k: (v if k != "events" else [(e["id"], e["name"], len(e["data"])) for e in v]) for k, v in o.items()}
                        ctx.violation("%s: a data line of %d bytes (MAX_LINE_SIZE %+d) ended by %s, cut at %s, gives %s; fed at once: %s" % (
                            name, len(line), delta, t, [len(x) for x in frags][:-1], short(got), short(whole)),
                            {"long": {"delta": delta, "t": t, "cuts": list(itertools.accumulate(len(x) for x in frags))[:-1], "runner": name}})
                        break


def run(ctx):
    from . import c13
    gen = {"MCLineFrame.tla": "---- MODULE MCLineFrame ----\nEXTENDS LineFrameGen\nE3 == <<\"CRLF\", \"LF\", \"CR\">>\n====\n"}
    r = ctx.tlc("http", "MCLineFrame", core.cfg_text(constants={"Eols": "<-E3", "MaxLen": 6 if ctx.quick else 7, "Algo": '"earliest"', "MaxLine": 0, "Limit": '"held"'},
                                                      invariants=["Confluent", "PrefixOfWhole"]), gen=gen)
    for v in r.violated:
        ctx.violation("the line framing model violates %s" % v, {"tlc": r.out[-3000:]})
    inv = ["EventsHaveData", "IdPersists", "LeidIsLastId"]
    r = ctx.tlc("http", "Sse", core.cfg_text(constants={"Kinds": KINDS, "MaxLines": 3 if ctx.quick else 4}, invariants=inv))
    for v in r.violated:
        ctx.violation("the event stream model violates %s" % v, {"tlc": r.out[-3000:]})
    short = ctx.tlc("http", "SseGen", core.cfg_text(constants={"Kinds": {"id1", "id0", "ev", "d1", "dnone", "r5", "cmt", "blank"}, "MaxLines": 4},
                                                     constraints=["Emit"]), workers=1).tagged_json("SSE")
    nsim, dep = (500, 7) if ctx.quick else (6000, 9)
    # long streams: TLC picks random initial states (whole streams) in simulation mode
    long_ = ctx.tlc("http", "SseGen", core.cfg_text(constants={"Kinds": {"id1", "id2", "id0", "id0n", "ev", "d1", "d2", "dsp", "dnone", "r5", "rbad", "unk", "blank"},
                                                                "MaxLines": 5 if ctx.quick else 6}, constraints=["Emit"]),
                    workers=1, simulate="num=%d" % nsim, depth=dep + 2, timeout=600).tagged_json("SSE")
    if len(short) < 400 or len(long_) < nsim // 2:
        raise core.MachineryError("stream dump too small: %d + %d" % (len(short), len(long_)))
    for i, rec in enumerate(short + long_):
        key = tuple((l["text"], l["t"]) for l in rec["lines"])
        ctx.case(key, {"stream": "".join(l["text"] + {"CRLF": "\r\n", "LF": "\n", "CR": "\r"}[l["t"]] for l in rec["lines"]),
                       "dispatch": expected(rec)} if i == len(short) + 3 else None)
        bad = check_stream(ctx, rec, deep=(i % 7 == 0) or i >= len(short))
        if bad:
            ctx.violation(bad, {"stream": rec})
    long_events(ctx)
    ctx.exhaustive = True
    return ctx.finish(rule="one case per stream (sequence of (line kind, terminator)); all streams of <= 3 lines over 8 kinds + simulated "
                           "ones of up to 5/6 lines over 13 kinds (empty id fields among them); each fed whole, bytewise, in every 1-cut (short: every 2-cut) to "
                           "EventSource and (every 7th short, all long) to Respondent plain and chunked",
                      extra={"fragmentations_fed": getattr(ctx, "parts", 0)},
                      assumptions=["a blank LF-terminated line directly after a CR-terminated line is the same bytes as a CRLF and is not "
                                   "generated; streams end with a blank line that is not CR-terminated (a trailing CR waits for the next byte)",
                                   "the BOM and the id-with-NUL rule are not part of the alphabet"])


def replay_case(ctx, case):
    if "long" in case:
        n = len(ctx.violations)
        long_events(ctx)
        return [ctx.violations[n][0]] if len(ctx.violations) > n else []
    bad = check_stream(ctx, case["stream"], True)
    return [bad] if bad else []
