"""C14 - requests built by the HTTP client are recovered exactly by the server's parser and WSGI environment.

MC:   specs/http/ReqChannel.tla: the channel is the identity on (method, path, query arguments, header value, body); TLC
      enumerates the input space (every field from 12 character classes, up to two fields away from the default, all
      methods and body kinds) and marks the cases the property does not decide.
      specs/http/ReqReuse.tla: sequences of requests over ONE reused Requester (Client.transmit -> Requester.rebuild); the
      channel has no memory (InOrderIdentity).
S->C: every request (and every sequence of 2, thorough also 3, requests over one Requester) of the model is concretised (several concrete strings per class), built by the real Requester,
      parsed by the real Requestant and turned into a WSGI environ by the real Server.buildEnviron; method, path, query
      arguments (standard decoder urllib.parse.parse_qsl), header value and body bytes must come out as they went in.
      This is model-generated input testing of an encode/decode pair: the model supplies the space and the identity oracle.
"""
import json
from urllib.parse import parse_qsl, unquote

from .. import core

CLASS = {
    "plain": ["abc", "A1-_.~"],
    "space": ["a b", " lead"],
    "amp": ["a&b", "&"],
    "eq": ["a=b", "="],
    "plus": ["a+b", "1+1=2"],
    "pct": ["100%", "%41", "%zz"],
    "semi": ["a;b", ";"],
    "slash": ["a/b"],
    "question": ["a?b"],
    "hash": ["a#b"],
    "latin": ["café", "ü"],
    "nonlatin": ["Ωmega", "日本", "\U0001F600"],
    "empty": [""],
}


class Dummy:
    tymeout = 1.0
    ca = ("127.0.0.1", 50001)


def params(method, seg, qkey, qval, hval, bodykind, extra=False):
    """-> (request keyword arguments as an application passes them to Client.request(), the body bytes expected)"""
    path = "/top/" + seg + "/end"
    kw = {"method": method, "path": path, "qargs": {qkey: qval, "fix": "1"}, "headers": {"X-H": hval} if hval is not None else {}}
    if extra:
        kw["headers"].update({"X-Extra": "1", "If-None-Match": '"v1"'})
    body = b""
    if method != "GET":
        if bodykind == "raw":
            body = b"\x00\xffraw " + seg.encode("utf-8")
            kw["body"] = body
        elif bodykind == "json":
            kw["data"] = {"k": qval, qkey or "k2": [1, seg]}
            body = json.dumps(kw["data"], separators=(",", ":")).encode("utf-8")
        elif bodykind == "form":
            kw["fargs"] = {"f": "v1", "g": "v 2"}
            body = None
        elif bodykind == "mform":         # the same fields as multipart/form-data (asked for by the content type)
            kw["fargs"] = {"f": "v1", "g": "v 2 \u00e9"}
            kw["headers"] = dict(kw["headers"], **{"Content-Type": "multipart/form-data"})
            body = None
    return kw, body


def sent_fields(wire):
    """names of the header fields on the wire, as the WSGI environ names them"""
    head = bytes(wire).split(b"\r\n\r\n", 1)[0].split(b"\r\n")[1:]
    out = set()
    for ln in head:
        name = ln.split(b":", 1)[0].decode("latin-1").upper().replace("-", "_")
        if name != "CONTENT_LENGTH":
            out.add(name if name == "CONTENT_TYPE" else "HTTP_" + name)
    return out


def recover(wire, path, body, p=None):
    """p: the server's parser of this connection when an earlier request has already been parsed with it"""
    from hio.core.http import serving
    from hio.core import http
    if p is None:
        p = serving.Requestant(msg=bytearray(wire), remoter=Dummy())
    else:
        p.makeParser()
        p.msg.extend(wire)
    while p.parser:
        before = len(p.msg)
        p.parse()
        if p.parser and len(p.msg) == before:
            break
    if not p.ended or p.errored:
        return {"error": "server could not parse %r: %s" % (wire, p.error)}
    if p.msg:
        return {"error": "server left %r unparsed of %r" % (bytes(p.msg), wire)}
    srv = http.Server.__new__(http.Server)
    srv.scheme, srv.name = "http", "s"
    srv.servant = type("S", (), {"eha": ("127.0.0.1", 8080)})()
    env = srv.buildEnviron(p)
    # (the environ always has a CONTENT_LENGTH: not a header the client has to have sent)
    # and hio lists Content-Type / Content-Length under HTTP_ as well)
    fields = {("CONTENT_TYPE" if k == "HTTP_CONTENT_TYPE" else k) for k in env
              if (k.startswith("HTTP_") and k != "HTTP_CONTENT_LENGTH") or (k == "CONTENT_TYPE" and env[k] != "")}
    return {"parser": p, "fields": fields, "sent_fields": sent_fields(wire), "host": env.get("HTTP_HOST"),
            "wire": wire, "method": env["REQUEST_METHOD"], "path": unquote(env["PATH_INFO"]), "path2": p.path,
            "qargs": dict(parse_qsl(env["QUERY_STRING"], keep_blank_values=True)), "hval": env.get("HTTP_X_H"),
            "body": env["wsgi.input"].read(), "want_path": path, "want_body": body, "ctype": env.get("CONTENT_TYPE", "")}


# a query string the application has already put into the path: the client merges it with the query arguments; what the
# request then carries is the client's own .qargs, and that is what the server must recover
PATHQ = {"none": "", "amp": "?p1=a%20b&p2=c", "semi": "?p1=a;p2=c", "flag": "?p1", "pct": "?p%201=%26%3D&p2=a+b"}


def roundtrip(method, seg, qkey, qval, hval, bodykind, pq="none"):
    from hio.core.http import clienting
    kw, body = params(method, seg, qkey, qval, hval, bodykind)
    path = kw["path"]
    kw["path"] = path + PATHQ[pq]
    try:
        rq = clienting.Requester(hostname="h", port=8080, scheme="http", **kw)
        wire = rq.build()
    except UnicodeEncodeError as ex:
        return {"unencodable": str(ex)}
    r = recover(wire, path, body)
    r["client_qargs"] = {str(k): str(v) for k, v in rq.qargs.items()}
    return r


def roundtrip_seq(reqs, bare=False):
    """several requests over one reused Requester, the way Client.transmit() does it -> list of results.
    bare: the requests after the first are given an EMPTY dict of query arguments and of header fields (not None, which means
    'as before'): they must go out without any"""
    from hio.core.http import clienting
    out, rq, p = [], None, None
    for i, r in enumerate(reqs):
        kw, body = params(*r, extra=(i % 2 == 0))      # every other request carries two more header fields
        if bare and i > 0:
            kw["qargs"], kw["headers"] = {}, {}
        try:
            if rq is None:
                rq = clienting.Requester(hostname="h", port=8080, scheme="http", **kw)
                wire = rq.build()
            else:
                wire = rq.rebuild(**kw)
        except UnicodeEncodeError as ex:
            out.append({"unencodable": str(ex)})
            if rq is None:
                break
            continue
        out.append(recover(wire, kw["path"], body, p))       # one server side parser per connection, as in Server.serviceReqs
        p = out[-1].get("parser")
        if p is None:
            break
    return out


def judge(r, seg, qkey, qval, hval, method, bodykind, dontcare, pq="none"):
    if "unencodable" in r:
        return None if any(ord(c) > 255 for c in hval) else "request cannot be built: %s" % r["unencodable"]
    if "error" in r:
        return r["error"]
    if r["method"] != method:
        return "method %r recovered as %r" % (method, r["method"])
    if dontcare:
        return None
    if r["path"] != r["want_path"] or r["path2"] != r["want_path"]:
        return "path %r recovered as %r (environ) / %r (parser); wire %r" % (r["want_path"], r["path"], r["path2"], r["wire"][:120])
    want_q = {qkey: qval, "fix": "1"}
    if pq != "none":
        if any(r["client_qargs"].get(k) != v for k, v in want_q.items()) or len(r["client_qargs"]) <= len(want_q):
            return "the request built from a path with the query %r and arguments %r carries the arguments %r" % (
                PATHQ[pq], want_q, r["client_qargs"])
        want_q = r["client_qargs"]
    if r["qargs"] != want_q:
        return "query arguments %r recovered as %r; wire %r" % (want_q, r["qargs"], r["wire"][:160])
    if r["hval"] != hval:
        return "header value %r recovered as %r" % (hval, r["hval"])
    if r["host"] != "h:8080":
        return "the Host field the server sees is %r, the client was made for h:8080" % (r["host"],)
    if r["fields"] != r["sent_fields"]:
        return "the server's environ has header fields %s, the request on the wire has %s" % (sorted(r["fields"]), sorted(r["sent_fields"]))
    if r["want_body"] is not None and r["body"] != r["want_body"]:
        return "body %r recovered as %r" % (r["want_body"], r["body"])
    if bodykind == "mform" and method != "GET":
        import email
        msg = email.message_from_bytes(b"Content-Type: " + r["ctype"].encode("latin-1") + b"\r\n\r\n" + r["body"])
        try:
            fields = {p.get_param("name", header="content-disposition"): p.get_payload(decode=True).decode("utf-8")
                      for p in msg.get_payload()}
        except Exception as ex:
            fields = "unparsable (%s)" % ex
        bnd = (msg.get_param("boundary") or "").encode("latin-1")
        if fields != {"f": "v1", "g": "v 2 \u00e9"} or not bnd or not r["body"].rstrip(b"\r\n").endswith(b"--" + bnd + b"--") \
                or r["body"].count(b"--" + bnd) != 3:
            return "multipart form fields recovered as %r from %r (boundary %r)" % (fields, r["body"][:200], bnd)
    if bodykind == "form" and method != "GET":
        if dict(parse_qsl(r["body"].decode("utf-8"), keep_blank_values=True)) != {"f": "v1", "g": "v 2"}:
            return "form fields recovered as %r" % r["body"]
    return None


def concrete(q, k):
    pick = lambda c: CLASS[c][k % len(CLASS[c])]
    return (q["method"], pick(q["seg"]), pick(q["qkey"]), pick(q["qval"]), pick(q["hval"]), q["body"])


def judge_seq(reqs, dontcare, k, results, bare=False):
    for i, (q, res) in enumerate(zip(reqs, results)):
        method, seg, qkey, qval, hval, body = concrete(q, k)
        if bare and i > 0 and "qargs" in res and not dontcare[i]:
            if res["qargs"] or res["hval"] is not None:
                return "request %d of %d over one Requester was given no query arguments and no header fields but went out with %r and X-H %r" % (
                    i + 1, len(reqs), res["qargs"], res["hval"])
            res = dict(res, qargs={qkey: qval, "fix": "1"}, hval=hval)       # the rest is judged as usual
        bad = judge(res, seg, qkey, qval, hval, method, body, dontcare[i])
        if bad:
            return "request %d of %d over one Requester (%s /top/%r/end?%r=%r X-H: %r body %s): %s" % (
                i + 1, len(reqs), method, seg, qkey, qval, hval, body, bad)
    if len(results) < len(reqs):
        return "only %d of %d requests were built" % (len(results), len(reqs))
    return None


def run_reuse(ctx, classes):
    consts = {"Classes": classes, "Methods": {"GET", "POST"}, "BodyKinds": {"none", "raw", "json", "form"},
              "FirstAway": 0 if ctx.quick else 1, "NextAway": 1, "MaxReqs": 2}
    r = ctx.tlc("http", "ReqReuse", core.cfg_text(constants=consts, invariants=["InOrderIdentity"]))
    for v in r.violated:
        ctx.violation("the model violates %s" % v, {"tlc": r.out[-2000:]})
    gc = [consts] if ctx.quick else [consts, dict(consts, Classes={"plain", "amp", "latin"}, FirstAway=0, MaxReqs=3)]
    for c in gc:
        recs = ctx.tlc("http", "ReqReuseGen", core.cfg_text(constants=c, constraints=["Emit"]), workers=1).tagged_json("RS")
        if len(recs) < 1000:
            raise core.MachineryError("request sequence dump too small: %d" % len(recs))
        for i, rec in enumerate(recs):
            k = i % 3
            reqs, dc = list(rec["reqs"]), list(rec["dontcare"])
            ctx.case(("seq", k) + tuple(tuple(sorted(q.items())) for q in reqs), {"requests": reqs} if i == 700 else None)
            try:
                bare = (i % 4 == 3)
                with core.watchdog():
                    results = roundtrip_seq([concrete(q, k) for q in reqs], bare)
                bad = judge_seq(reqs, dc, k, results, bare)
            except core.Hang:
                bad = "did not return"
            except Exception as ex:
                bad = "raised %s: %s" % (type(ex).__name__, ex)
            if bad:
                ctx.violation(bad, {"seq": reqs, "k": k, "dontcare": dc, "bare": bare})


def run(ctx):
    classes = set(CLASS)
    consts = {"Classes": classes, "Methods": {"GET", "POST", "PUT"}, "BodyKinds": {"none", "raw", "json", "form", "mform"},
              "MaxAway": 2 if ctx.quick else 3, "PathQueries": set(PATHQ)}
    r = ctx.tlc("http", "ReqChannel", core.cfg_text(constants=consts, invariants=["Identity"]))
    for v in r.violated:
        ctx.violation("the model violates %s" % v, {"tlc": r.out[-2000:]})
    gconsts = dict(consts, Methods={"GET", "POST"}) if ctx.quick else consts
    recs = ctx.tlc("http", "ReqChannelGen", core.cfg_text(constants=gconsts, constraints=["Emit"]), workers=1).tagged_json("RQ")
    if len(recs) < 2000:
        raise core.MachineryError("request dump too small: %d" % len(recs))
    for i, rec in enumerate(recs):
        q = rec["req"]
        if q["method"] == "GET" and q["body"] != "none":
            continue
        if q["pq"] != "none" and sum(1 for f in ("seg", "qkey", "qval", "hval") if q[f] != "plain") > (1 if ctx.quick else 2):
            continue        # a query in the path is combined with one (thorough: two) field away from the default
        k = i % 3
        pick = lambda c: CLASS[c][k % len(CLASS[c])]
        seg, qkey, qval, hval = pick(q["seg"]), pick(q["qkey"]), pick(q["qval"]), pick(q["hval"])
        ctx.case((q["method"], q["seg"], q["qkey"], q["qval"], q["hval"], q["body"], q["pq"], k),
                 {"request": q, "concrete": {"seg": seg, "qkey": qkey, "qval": qval, "hval": hval}} if i == 500 else None)
        try:
            with core.watchdog():
                res = roundtrip(q["method"], seg, qkey, qval, hval, q["body"], q["pq"])
        except core.Hang:
            res = {"error": "did not return"}
        except Exception as ex:
            res = {"error": "raised %s: %s" % (type(ex).__name__, ex)}
        bad = judge(res, seg, qkey, qval, hval, q["method"], q["body"], rec["dontcare"], q["pq"])
        if bad:
            ctx.violation("%s /top/%r/end%s?%r=%r X-H: %r body %s: %s" % (q["method"], seg, PATHQ[q["pq"]], qkey, qval, hval, q["body"], bad),
                          {"req": q, "k": k, "dontcare": rec["dontcare"]})
    run_reuse(ctx, classes)
    ctx.exhaustive = True
    return ctx.finish(level="model_checking",
                      rule="one case per request of the model (method, class of path segment / query key / query value / header value with "
                           "at most two (quick) / three (thorough) away from the default, body kind) with one of 1-3 concrete strings per class; one case per sequence of 2 (thorough: also 3 over 3 classes) such "
                           "requests over one reused Requester",
                      assumptions=["'?', '#' and an empty segment inside a path, an empty query key, and blank or empty header values are "
                                   "don't-cares (URL / HTTP syntax gives them another meaning)",
                                   "header values outside latin-1 cannot be put on the wire: the client refusing them is accepted",
                                   "the encoding itself is not modelled: the TLA+ model supplies the input space and the identity oracle"])


def replay_case(ctx, case):
    if "seq" in case:
        try:
            bad = judge_seq(case["seq"], case["dontcare"], case["k"],
                            roundtrip_seq([concrete(q, case["k"]) for q in case["seq"]], case.get("bare", False)), case.get("bare", False))
        except Exception as ex:
            bad = "raised %s: %s" % (type(ex).__name__, ex)
        return [bad] if bad else []
    q, k = case["req"], case["k"]
    pick = lambda c: CLASS[c][k % len(CLASS[c])]
    seg, qkey, qval, hval = pick(q["seg"]), pick(q["qkey"]), pick(q["qval"]), pick(q["hval"])
    try:
        res = roundtrip(q["method"], seg, qkey, qval, hval, q["body"], q.get("pq", "none"))
    except Exception as ex:
        res = {"error": "raised %s: %s" % (type(ex).__name__, ex)}
    bad = judge(res, seg, qkey, qval, hval, q["method"], q["body"], case["dontcare"], q.get("pq", "none"))
    return [bad] if bad else []
