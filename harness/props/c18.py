"""C18 - WSGI responses are self-delimiting, pipelined requests are answered in order, the connection closes when due.

MC:   specs/http/Wsgi.tla: request sequences (HTTP/1.1, 1.1+close, 1.0, 1.0+keep-alive) x application behaviours
      (declared Content-Length exact / zero / exceeded by the body / with empty pieces, no Content-Length with pieces,
      with empty pieces, with no body): SelfDelimiting, InOrder, BodyWithinCL, CloseIffNotPersistent, NothingAfterClose.
S->C: every behaviour of the model is executed on a real http.Server with a scripted WSGI application over scripted
      sockets, the requests sent pipelined in one write and one by one; the bytes the peer received are cut into
      responses by an independent parser (http.client.HTTPResponse); status, a marker header, body, framing and the
      point at which the server closed the connection must be the model's.
"""
import http.client
import io

from .. import core, httprig

REQ = {"11": b"GET /r%d HTTP/1.1\r\nHost: h\r\n\r\n", "11close": b"GET /r%d HTTP/1.1\r\nHost: h\r\nConnection: close\r\n\r\n",
       "10": b"GET /r%d HTTP/1.0\r\n\r\n", "10ka": b"GET /r%d HTTP/1.0\r\nConnection: keep-alive\r\n\r\n"}


def body_bytes(i, n):
    return bytes((i * 31 + k * 7 + 65) % 256 for k in range(n))


def make_app(pieces, declared, as_generator):
    def app(environ, start_response):
        i = int(environ["PATH_INFO"][2:])
        hdrs = [("Content-Type", "text/plain"), ("X-Req", str(i))]
        if declared[i - 1] >= 0:
            hdrs.append(("Content-Length", str(declared[i - 1])))
        full = body_bytes(i, sum(pieces[i - 1]))
        out, pos = [], 0
        for k in pieces[i - 1]:
            out.append(full[pos:pos + k])
            pos += k
        if as_generator == "write":          # the legacy write() callable that start_response() returns
            write = start_response("20%d OK" % (i % 3), hdrs)
            for x in out:
                write(x)
            return []
        start_response("20%d OK" % (i % 3), hdrs)
        if as_generator == "genret":         # a generator that hands over its last piece as its return value (hio writes it)
            def gen2():
                for x in out[:-1]:
                    yield x
                return out[-1] if out else b""
            return gen2()
        if as_generator:
            def gen():
                for x in out:
                    yield x
            return gen()
        return out
    return app


class KeepOpen(io.BytesIO):
    def close(self):      # http.client closes the file when a response is complete: the position is still needed
        pass


class FakeSock:
    def __init__(self, data):
        self.f = KeepOpen(data)

    def makefile(self, mode):
        return self.f


def split_responses(data, n):
    """cut `data` into up to n responses with an independent parser; -> list of dicts, leftover bytes"""
    res = []
    pos = 0
    for _ in range(n):
        if pos >= len(data):
            break
        sock = FakeSock(data[pos:])
        r = http.client.HTTPResponse(sock, method="GET")
        try:
            r.begin()
            chunked = r.chunked
            length = r.length
            body = r.read()
        except Exception as ex:
            res.append({"unparsable": "%s: %s" % (type(ex).__name__, ex)})
            return res, b""
        framing = "chunked" if chunked else ("cl" if length is not None and r.getheader("content-length") is not None else "close")
        res.append({"status": r.status, "xreq": r.getheader("x-req"), "body": body, "framing": framing,
                    "te": r.getheader("transfer-encoding"), "cl": r.getheader("content-length")})
        pos += sock.f.tell()
    return res, data[pos:]


def execute(rec, pipelined, as_generator, slow=False):
    """slow: the peer reads slowly - the kernel takes at most 11 bytes per send() and every third send() would block"""
    reqs, out = rec["reqs"], rec["out"]
    app = make_app([list(p or []) for p in rec["pieces"]], list(rec["declared"]), as_generator)
    rig = httprig.HttpServerRig("wsgi", 1, app=app)
    data = bytearray()
    closed_after = None       # number of complete responses on the wire when the server closed the connection
    try:
        with core.watchdog():
            def settle():
                idle = 0
                for n in range(300):          # service until nothing has been sent for a while
                    if slow and not rig.closed(1):
                        rig.f[1].sendplan = ["block"] if n % 3 == 2 else [11]
                    rig.service(1)
                    d = rig.take(1)
                    data.extend(d)
                    idle = 0 if d else idle + 1
                    if idle >= 8:
                        break
            if pipelined:
                rig.feed(1, b"".join(REQ[r["r"]] % (i + 1) for i, r in enumerate(reqs)))
                settle()
            else:
                for i, r in enumerate(reqs):
                    if rig.closed(1):
                        break
                    rig.feed(1, REQ[r["r"]] % (i + 1))
                    settle()
    except core.Hang:
        return "service() did not return"
    except Exception as ex:
        return "service() raised %s: %s" % (type(ex).__name__, ex)
    got, left = split_responses(bytes(data), len(reqs))
    desc = "requests %s answered by %s (%s, app returns a %s)" % (
        [r["r"] for r in reqs], [r["a"] for r in reqs], "pipelined" if pipelined else "one at a time", {False: "list", True: "generator", "write": "[] after write() calls", "genret": "generator with a return value"}[as_generator])
    for k, o in enumerate(out):
        if k >= len(got):
            return "%s: response %d missing (received %r)" % (desc, k + 1, bytes(data)[-200:])
        g = got[k]
        if "unparsable" in g:
            return "%s: response %d cannot be parsed by an independent parser: %s (received %r)" % (desc, k + 1, g["unparsable"], bytes(data)[:300])
        if g["xreq"] != str(k + 1) or g["status"] != 200 + (k + 1) % 3:
            return "%s: response %d is the answer to request %s with status %s" % (desc, k + 1, g["xreq"], g["status"])
        if g["framing"] != o["framing"]:
            return "%s: response %d is delimited by %s (transfer-encoding %s, content-length %s), should be %s" % (
                desc, k + 1, g["framing"], g["te"], g["cl"], o["framing"])
        want = body_bytes(k + 1, sum(rec["pieces"][k] or []))[:o["body"]]
        if g["body"] != want:
            return "%s: response %d has body %r, the application's is %r" % (desc, k + 1, g["body"], want)
    if len(got) > len(out) or left:
        return "%s: bytes after the last expected response: %d more responses, leftover %r" % (desc, len(got) - len(out), left[:80])
    should_close = out[-1]["close"]
    if rig.closed(1) != should_close:
        return "%s: connection is %s after the last response, should be %s" % (
            desc, "closed" if rig.closed(1) else "open", "closed" if should_close else "open")
    return None


def run(ctx):
    reqk = {"11", "11close", "10", "10ka"}
    appk = {"cl", "cl0", "clover", "nocl", "noclempty", "noclnone", "clempty"}
    inv = ["SelfDelimiting", "InOrder", "BodyWithinCL", "CloseIffNotPersistent", "NothingAfterClose"]
    r = ctx.tlc("http", "Wsgi", core.cfg_text(constants={"ReqKinds": reqk, "AppKinds": appk, "MaxReqs": 3 if ctx.quick else 4}, invariants=inv))
    for v in r.violated:
        ctx.violation("the model violates %s" % v, {"tlc": r.out[-3000:]})
    recs = ctx.tlc("http", "WsgiGen", core.cfg_text(constants={"ReqKinds": reqk, "AppKinds": appk, "MaxReqs": 2 if ctx.quick else 3},
                                                     constraints=["Emit"]), workers=1).tagged_json("WS")
    if ctx.quick:
        recs += ctx.tlc("http", "WsgiGen", core.cfg_text(constants={"ReqKinds": {"11", "10ka"}, "AppKinds": {"cl", "nocl", "noclempty", "clover"},
                                                                     "MaxReqs": 3}, constraints=["Emit"]), workers=1).tagged_json("WS")
    if len(recs) < 300:
        raise core.MachineryError("behaviour dump too small: %d" % len(recs))
    seen = set()
    for i, rec in enumerate(recs):
        key = tuple((r["r"], r["a"]) for r in rec["reqs"])
        if key in seen:
            continue
        seen.add(key)
        for pipelined in (True, False):
            for as_gen in (False, True, "write", "genret"):
                ctx.case((key, pipelined, as_gen), {"requests": key, "expected": rec["out"]} if i == 40 and pipelined and not as_gen else None)
                bad = execute(rec, pipelined, as_gen)
                if bad:
                    ctx.violation(bad, {"rec": rec, "pipelined": pipelined, "as_generator": as_gen})
                if as_gen is False:
                    ctx.case((key, pipelined, "slow"))
                    bad = execute(rec, pipelined, as_gen, slow=True)
                    if bad:
                        ctx.violation(bad + " [the peer reads slowly: 11 bytes per send, every third would block]",
                                      {"rec": rec, "pipelined": pipelined, "as_generator": as_gen, "slow": True})
    ctx.exhaustive = True
    return ctx.finish(rule="one case per (request sequence x application behaviours, pipelined | one at a time, list | generator | write() calls | generator with return value)",
                      assumptions=["an application that declares a Content-Length larger than its body is outside the bounds (its response "
                                   "cannot be framed by anybody)", "HEAD requests and 1xx/204/304 statuses are not in the alphabet"])


def replay_case(ctx, case):
    bad = execute(case["rec"], case["pipelined"], case["as_generator"], case.get("slow", False))
    return [bad] if bad else []
