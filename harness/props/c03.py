"""C03 - virtual-time cycle model: Doist.tla refines FlatSched.tla; real (doer,tyme) recur sequences equal the model's."""
from .. import sched

RULE = ("behaviours = maximal runs of Doist.tla without faults/extend/remove; distinct by (config, script); "
        "non-trivial = more than 6 events; each replayed with a time scale from {1/32,1/4,1,3}")


def plan(ctx):
    q = ctx.quick
    refine = [("refine-nest", sched.mk(sched.NEST, Tocks=[0, 1, 3], MaxSteps=3 if q else 4, Limit=4, Rets=["T"], EnterOuts=["ok", "r"])),
              ("refine-deep-T2", sched.mk(sched.DEEP, Tocks=[0, 1, 3], MaxSteps=3, Limit=0, Tock=2, T0=3, Rets=["T"]))]
    exh = [("flat3", sched.mk(sched.FLAT3, Tocks=[0, 1, 2, 3], MaxSteps=3, Limit=0, Tock=2, T0=3)),
           ("nest-lim", sched.mk(sched.NEST, Tocks=[0, 3], MaxSteps=3, Limit=5, Tock=2)),
           ("ddtock", sched.mk(["a", ["G", "b", "c"]], owntock={"G": 2}, Tocks=[0, 1, 3], MaxSteps=3, Limit=6))]
    big = sched.mk(["a", ["G", "b", ["H", "c", "e"]], "d", ["K", "f", "g"]], Tocks=[0, 1, 2, 3, 5], MaxSteps=7, Limit=0, Tock=2, T0=1,
                   Rets=["T", "F", "N"], EnterOuts=["ok", "r"])
    sim = [("big", big, 600 if q else 60000)]
    if not q:
        refine.append(("refine-two", sched.mk(sched.TWO, Tocks=[0, 2, 3], MaxSteps=3, Limit=5, Rets=["T", "N"])))
    return dict(refine=refine, exh=exh, sim=sim)


def run(ctx):
    sched.run_family(ctx, "C03", ["TypeOK"], **plan(ctx))
    return ctx.finish(rule=RULE, assumptions=[
        "time scales are exactly representable floats so integer quanta and float arithmetic coincide; non-dyadic tocks "
        "(rounding) are out of scope of the model"])
