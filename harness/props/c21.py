"""C21 - memo transmission loses no gram under transport back pressure.

MC:   specs/memo/TxPressure.tla: WireExact (per destination the accepted bytes are the queued grams' bytes in order, without
      gap or repetition), NoLoss (a gram is pending, dropped as unreachable, or completely on the wire), OneInFlight, for
      every pattern of per-call acceptance counts (0 = would block .. all) and unreachable-destination errors.
S->C: histories of the model (all short ones + tlc -simulate) executed on a real Memoer with a scripted send(), and on real
      UDP and UXD PeerMemoers whose socket is a scripted fake (so the mapping of EAGAIN / ENOBUFS to "0 bytes sent" and
      of unreachable errnos is bound too); after each call the queue length, the remainder in flight and the bytes
      accepted per destination are compared; at the end the transport accepts everything and serviceAllTx() must put
      every gram that was not dropped on the wire, completely and in order.
"""
import errno

from .. import core

DST = {"memoer": {"d1": "dst-one", "d2": "dst-two"},
       "udp": {"d1": ("127.0.0.1", 7001), "d2": ("127.0.0.1", 7002)},
       "uxd": {"d1": "/tmp/hio_verif_uxd_d1", "d2": "/tmp/hio_verif_uxd_d2"}}


def gram_bytes(g, n):
    return bytes(g * 16 + i for i in range(1, n + 1))


class Script:
    """transport answers: list of ("acc", k) / ("unreachable",); empty list = accept everything"""

    def __init__(self):
        self.plan = []
        self.wire = {}
        self.blocks = 0

    def answer(self, data, dst):
        step = self.plan.pop(0) if self.plan else ("acc", 99)
        if step[0] == "unreachable":
            raise OSError(errno.EHOSTUNREACH if len(data) % 2 else errno.ECONNREFUSED, "unreachable")
        k = min(int(step[1]), len(data))
        return k


class FakeDgramSocket:
    def __init__(self, script):
        self.script = script

    def sendto(self, data, dst):
        k = self.script.answer(data, dst)
        if k == 0:
            self.script.blocks += 1
            raise OSError((errno.EAGAIN, errno.ENOBUFS)[self.script.blocks % 2], "would block")
        self.script.wire.setdefault(dst, bytearray()).extend(bytes(data[:k]))
        return k

    def close(self):
        pass


def make(flavour, script):
    from hio.core.memo import memoing
    if flavour == "memoer":
        class Scripted(memoing.Memoer):
            def send(self, gram, dst, *, echoic=False):
                k = script.answer(gram, dst)
                script.wire.setdefault(dst, bytearray()).extend(bytes(gram[:k]))
                return k
        m = Scripted()
        m.opened = True
        return m
    if flavour == "udp":
        from hio.core.udp import peermemoing
        m = peermemoing.PeerMemoer(name="v", ha=("127.0.0.1", 7000))
    else:
        from hio.core.uxd import peermemoing
        m = peermemoing.PeerMemoer(name="v", temp=True, reopen=False)
    m.ls = FakeDgramSocket(script)
    m.opened = True
    return m


def observe(m, script, flavour):
    gram, dst = m.txbs
    return {"ntxgs": len(m.txgs), "rem": len(gram) if dst is not None else 0,
            "wire": {d: bytes(script.wire.get(DST[flavour][d], b"")) for d in ("d1", "d2")}}


def replay(flavour, h, notes=None):
    script = Script()
    try:
        m = make(flavour, script)
    except Exception as ex:
        raise core.MachineryError("cannot build %s memoer: %s" % (flavour, ex))
    sent = {"d1": bytearray(), "d2": bytearray()}     # expected wire, rebuilt from the model's lengths
    queued = []          # (g, dst, bytes)
    g = 0
    for k, e in enumerate(h):
        try:
            with core.watchdog():
                if e["op"] == "queue":
                    g += 1
                    d, n = e["a"]
                    queued.append((g, d, gram_bytes(g, n)))
                    m.gramit(gram_bytes(g, n), DST[flavour][d])
                elif e["op"] == "bounce":          # the transport is closed and opened again
                    m.close()
                    if flavour == "memoer":
                        m.reopen()
                    else:
                        m.ls = FakeDgramSocket(script)
                    m.opened = True
                elif e["op"] == "greedy":
                    script.plan = [("unreachable",) if a[0] == "unreachable" else ("acc", a[1]) for a in e["a"]]
                    m.serviceTxGrams()
                    script.plan = []
                else:
                    a = e["a"]
                    script.plan = [("unreachable",)] if a[0] == "unreachable" else [("acc", a[1])]
                    (m.serviceTxGramsOnce, m.serviceAllTxOnce)[k % 2]()
                    script.plan = []
        except core.Hang:
            return "call %d did not return" % (k + 1)
        except Exception as ex:
            return "call %d %s%s raised %s: %s" % (k + 1, e["op"], e["a"], type(ex).__name__, ex)
        o = observe(m, script, flavour)
        steps = [(x["op"], x["a"]) for x in h[:k + 1]]
        if (o["ntxgs"] != e["ntxgs"] or o["rem"] != e["rem"]) and notes is not None and not notes:
            # buffering differs from the model: internal unless bytes are lost, which the drain below decides
            notes.append("after %s: %d grams queued and %d bytes of a gram in flight, the model says %d and %d" % (
                steps, o["ntxgs"], o["rem"], e["ntxgs"], e["rem"]))
        for d in ("d1", "d2"):
            if len(o["wire"][d]) != e["wire"][d]:
                return "after %s: %d bytes accepted for %s, the model says %d" % (steps, len(o["wire"][d]), d, e["wire"][d])
    # drain: the transport accepts everything from now on
    try:
        with core.watchdog():
            for _ in range(3):
                m.serviceAllTx()
    except Exception as ex:
        return "serviceAllTx() raised %s: %s" % (type(ex).__name__, ex)
    o = observe(m, script, flavour)
    for d in ("d1", "d2"):
        w = o["wire"][d]
        # every queued gram to d appears completely and in order, except grams dropped as unreachable (they may be
        # missing from some byte on); what is on the wire must be a concatenation of prefixes in queue order
        pos = 0
        for (gi, gd, data) in queued:
            if gd != d:
                continue
            n = 0
            while n < len(data) and pos + n < len(w) and w[pos + n] == data[n]:
                n += 1
            pos += n
        if pos != len(w):
            return "bytes accepted for %s are not the queued grams in order: %r (history %s)" % (d, w, [(x["op"], x["a"]) for x in h])
    if o["ntxgs"] or o["rem"]:
        return "with a transport that accepts everything serviceAllTx() leaves %d grams queued and %d bytes in flight (history %s)" % (
            o["ntxgs"], o["rem"], [(x["op"], x["a"]) for x in h])
    ndropped = sum(1 for x in h if x["op"] == "service" and x["a"][0] == "unreachable") + \
        sum(1 for x in h if x["op"] == "greedy" for a in x["a"] if a[0] == "unreachable")
    total = sum(len(o["wire"][d]) for d in ("d1", "d2"))
    want_min = sum(len(b) for (_, _, b) in queued) - sum(sorted((len(b) for (_, _, b) in queued), reverse=True)[:ndropped])
    if total < want_min:
        return "only %d bytes reached the transport although at most %d grams were dropped as unreachable (history %s)" % (
            total, ndropped, [(x["op"], x["a"]) for x in h])
    return None


def memo_path(ctx):
    """the whole transmit path an application uses: memoit() -> serviceTxMemos (rend into grams) -> serviceTxGrams under back
    pressure: per destination the transport must have accepted exactly the grams a twin sender rends for the same memos,
    in order.  (The histories of the model queue grams directly with gramit().)"""
    from hio.core.memo import memoing
    memos = [("first memo " * 9, "d1"), ("zweites m\u00e9mo \u2603 " * 7, "d2"), ("x", "d1"), ("third " * 30, "d1")]
    mids = ["0A" + "%022d" % i for i in range(1, 50)]
    for size in (None, 64, 99):
        for pattern in ([("acc", 99)], [("acc", 1)], [("acc", 7), ("acc", 0)], [("acc", 0), ("acc", 0), ("acc", 13)], [("acc", 40), ("acc", 0), ("acc", 3)]):
            for entry in ("serviceAllTxOnce", "serviceAllTx", "serviceAllOnce"):
                ctx.case(("memo-path", size, tuple(pattern), entry))
                script = Script()
                m = make("memoer", script)
                twin = memoing.Memoer(size=size) if size else memoing.Memoer()
                if size:
                    m.size = size
                seq = iter(mids)
                m.makeMID = lambda: next(seq)
                seq2 = iter(mids)
                twin.makeMID = lambda: next(seq2)
                want = {"d1": bytearray(), "d2": bytearray()}
                try:
                    with core.watchdog():
                        for memo, d in memos:
                            m.memoit(memo, DST["memoer"][d])
                            for g in twin.rend(memo):
                                want[d].extend(g)
                        for k in range(400):
                            script.plan = [pattern[k % len(pattern)]]
                            getattr(m, entry)()
                            script.plan = []
                        for _ in range(3):
                            m.serviceAllTx()
                except core.Hang:
                    ctx.violation("memo path (%s, pattern %s): did not return" % (entry, pattern), {"memo_path": [size, pattern, entry]})
                    continue
                except Exception as ex:
                    ctx.violation("memo path (%s, pattern %s): raised %s: %s" % (entry, pattern, type(ex).__name__, ex),
                                  {"memo_path": [size, pattern, entry]})
                    continue
                for d in ("d1", "d2"):
                    got = bytes(script.wire.get(DST["memoer"][d], b""))
                    if got != bytes(want[d]):
                        n = next((i for i, (a, b) in enumerate(zip(got, want[d])) if a != b), min(len(got), len(want[d])))
                        ctx.violation("memo path (%s, gram size %s, acceptance pattern %s): the transport accepted %d bytes for %s, the memos rend "
                                      "into %d bytes; first difference at byte %d" % (entry, size, pattern, len(got), d, len(want[d]), n),
                                      {"memo_path": [size, pattern, entry]})
                        break


DECK_VAL = {"None": None, "F": False, "v1": "one", "v2": 2}


def deck_un(x):
    for k, v in DECK_VAL.items():
        if x is v or (x == v and type(x) is type(v)):
            return k
    return repr(x)


def run_deck(ctx):
    """beyond the listed property: hio.help.decking.Deck, the queue class of every message path (specs/help/Deck.tla).
    Differences are divergences, never C21 violations."""
    from hio.help.decking import Deck
    consts = {"Vals": {"v1", "v2"}, "MaxLen": 4, "MaxOps": 6 if ctx.quick else 8}
    r = ctx.tlc("help", "Deck", core.cfg_text(constants=consts, view="MCView",
                                              properties=["PushNeverNone", "PullIsFifo", "EmptivePullNeverRaises"]))
    for v in r.violated:
        ctx.divergence("the Deck model violates %s" % v)
    hs = ctx.tlc("help", "DeckGen", core.cfg_text(constants=dict(consts, MaxOps=3, Vals={"v1"}), constraints=["Dump"]),
                 workers=1).tagged_json("BH")
    nex = len(hs)
    nsim, dep = (60, 10) if ctx.quick else (2000, 16)
    hs += ctx.tlc("help", "DeckGen", core.cfg_text(constants=dict(consts, MaxOps=dep, MaxLen=6), constraints=["Dump"]),
                  workers=1, simulate="num=%d" % nsim, depth=dep + 2).tagged_json("BH")
    if nex < 300 or len(hs) - nex < nsim // 2:
        raise core.MachineryError("Deck history dump too small: %d + %d" % (nex, len(hs) - nex))
    nbad = 0
    for h in hs:
        d = Deck()
        for n, e in enumerate(h):
            op, a = e["op"], e["a"]
            try:
                if op == "push":
                    res = str(d.push(DECK_VAL[a]))
                elif op == "pull":
                    res = deck_un(d.pull(emptive=a))
                elif op == "append":
                    res = deck_un(d.append(DECK_VAL[a]))
                elif op == "appendleft":
                    res = deck_un(d.appendleft(DECK_VAL[a]))
                elif op == "extend":
                    res = deck_un(d.extend([DECK_VAL[x] for x in a]))
                elif op == "pop":
                    res = deck_un(d.pop())
                elif op == "clear":
                    res = deck_un(d.clear())
            except IndexError:
                res = "IndexError"
            except Exception as ex:
                res = "X:%s" % type(ex).__name__
            got = [deck_un(x) for x in d]
            if res != e["res"] or got != list(e["q"]):
                nbad += 1
                ctx.divergence("Deck (beyond C21): op %d %s(%s) gives %r with content %s, the model says %r with %s (history %s)" % (
                    n + 1, op, a, res, got, e["res"], list(e["q"]), [(x["op"], x["a"]) for x in h[:n + 1]]))
                break
    ctx.note("Deck.tla (beyond the property): %d histories (%d exhaustive of length 3, rest simulated of length %d) replayed on "
             "real Deck objects: %d differ" % (len(hs), nex, dep, nbad))


def run(ctx):
    run_deck(ctx)
    consts = {"Dsts": {"d1", "d2"}, "Lens": {1, 3}, "MaxGrams": 3, "MaxOps": 7 if ctx.quick else 9}
    r = ctx.tlc("memo", "TxPressure", core.cfg_text(constants=consts, invariants=["WireExact", "NoLoss", "OneInFlight"], view="MCView"))
    for v in r.violated:
        ctx.violation("the model violates %s" % v, {"tlc": r.out[-3000:]})
    hs = ctx.tlc("memo", "TxPressureGen", core.cfg_text(constants=dict(consts, MaxOps=3 if ctx.quick else 4, MaxGrams=2), constraints=["Dump"]), workers=1).tagged_json("BH")
    nex = len(hs)
    nsim, dep = (120, 10) if ctx.quick else (4000, 14)
    hs += ctx.tlc("memo", "TxPressureGen", core.cfg_text(constants=dict(consts, MaxOps=dep, MaxGrams=5, Lens={1, 2, 4}), constraints=["Dump"]),
                  workers=1, simulate="num=%d" % nsim, depth=dep + 2).tagged_json("BH")
    if nex < 500 or len(hs) - nex < nsim:
        raise core.MachineryError("history dump too small: %d + %d" % (nex, len(hs) - nex))
    for i, h in enumerate(hs):
        for flavour in ("memoer", "udp", "uxd"):
            ctx.case((flavour, tuple((e["op"], str(e["a"])) for e in h)),
                     {"flavour": flavour, "history": [(e["op"], e["a"]) for e in h]} if i == nex + 2 and flavour == "udp" else None)
            notes = []
            bad = replay(flavour, h, notes)
            if bad:
                ctx.violation("%s: %s" % (flavour, bad), {"flavour": flavour, "history": h})
            elif notes:
                ctx.divergence("%s: %s" % (flavour, notes[0]))
    memo_path(ctx)
    ctx.exhaustive = True
    return ctx.finish(rule="one case per (Memoer with scripted send | UDP PeerMemoer | UXD PeerMemoer on a scripted socket, history); "
                           "histories: all of length 3 (quick) / 4 + simulated ones of length 10/14 over queue, single service call (alternately "
                           "serviceTxGramsOnce / serviceAllTxOnce), greedy serviceTxGrams with the first one or two sends planned, close + "
                           "reopen of the transport; acceptance counts {0,1,2,3,all} and unreachable",
                      assumptions=["grams are queued directly with gramit(); segmentation of memos is C20's subject"])


def replay_case(ctx, case):
    if "memo_path" in case:
        n = len(ctx.violations)
        memo_path(ctx)
        return [ctx.violations[n][0]] if len(ctx.violations) > n else []
    bad = replay(case["flavour"], case["history"])
    return [bad] if bad else []
