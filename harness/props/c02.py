"""C02 - forced exits nested: reverse enter order per scheduler, children before their DoDoer, all before do() ends."""
from .. import sched
from . import c01


def run(ctx):
    p = c01.plan(ctx)
    # mid-cycle faults with doers on both sides of the marker, remove of subsets, extend then fault
    p["exh"] = list(p["exh"]) + [
        ("flat4-midcycle", sched.mk(["a", "b", "c", "d"], Tocks=[0, 3], MaxSteps=2, Limit=2, Faults=["x", "k"], MaxFaults=1)),
        # the same inside a DoDoer: a child raises in the middle of the DoDoer's cycle with children on both sides of the marker
        ("dd4-midcycle", sched.mk([["G", "a", "b", "c", "e"], "d"], Tocks=[0, 3], MaxSteps=2, Limit=2, Faults=["x", "k"], MaxFaults=1)),
        ("nest-remove", sched.mk(sched.NEST, Tocks=[0], MaxSteps=3, Limit=3, MaxOps=1,
                                 rem={"R": [["a", "d"], ["G"], ["d", "G", "a"]], "G": [["b", "c"], ["c"]]})),
    ]
    sched.run_family(ctx, "C02", ["TypeOK", "SweepsOrderedModuloExtend", "AllOutAtEnd"], **p)
    # the known finding must still be reachable in the model (otherwise the listing is stale): SweepsOrdered is
    # expected to be violated by a mid-cycle extend followed by a forced close.
    cfg = sched.mk(["a", "b"], extra=["x"], Tocks=[0], MaxSteps=3, Limit=2, MaxOps=1, ext={"R": [["x"]]})
    r = sched.model_check(ctx, cfg, ["SweepsOrdered"])
    if "SweepsOrdered" in r.violated:
        ctx.violation("model: sweep out of order after mid-cycle extend", {"cfg": cfg}, finding="C02-extend-midcycle")
    else:
        ctx.note("known finding C02-extend-midcycle is no longer reachable in the model")
    return ctx.finish(rule=c01.RULE + "; C02 compares the forced-close (cease) order, late life-cycle events after do() "
                      "returned, and child-before-DoDoer exit order", assumptions=[
        "reverse enter order is read per scheduler: each forced-close sweep of one scheduler closes its own children in "
        "reverse enter order (an exception unwinds inner schedulers before outer ones by construction)"])
