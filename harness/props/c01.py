"""C01 - well-formed life-cycle on every exit path (see DESIGN.md section 3, C01)."""
from .. import sched

RULE = ("behaviours = maximal runs of specs/sched/Doist.tla (forest x per-leaf choice scripts x fault point); distinct by "
        "(config, script); non-trivial = contains a forced close, abort, extend or remove, or more than 6 events")


def plan(ctx):
    q = ctx.quick
    faults = dict(Faults=["x", "k"], EnterOuts=["ok", "x", "r"], MaxFaults=1, Rets=["T", "N"])
    ops = dict(MaxOps=1)
    mc = [("nest-all", sched.mk(sched.NEST, extra=["x"], Tocks=[0, 1, 2] if not q else [0, 2], MaxSteps=3, Limit=3,
                                ext={"R": [["x"], ["x", "x"], ["a", "x"]]}, rem={"R": [["a"], ["d", "a"], ["G"]], "G": [["b"], ["c", "b"]]},
                                **faults, **ops))]
    exh = [("flat3-faults", sched.mk(sched.FLAT3, Tocks=[0, 2], MaxSteps=2, Limit=3, **faults)),
           ("nest-faults", sched.mk(sched.NEST, Tocks=[0], MaxSteps=2, Limit=2, **faults)),
           ("deep-faults", sched.mk(sched.DEEP, Tocks=[0], MaxSteps=2, Limit=2, Faults=["x", "k"], EnterOuts=["ok", "x"], MaxFaults=1)),
           ("flat-ops", sched.mk(["a", "b"], extra=["x", "y"], Tocks=[0], MaxSteps=3, Limit=3, MaxOps=2, Faults=["x"], MaxFaults=1,
                                 EnterOuts=["ok", "x"], ext={"R": [["x", "y"], ["x", "x"]]}, rem={"R": [["a"], ["b", "a"], ["x"]]})),
           ("always", sched.mk(["a", ["G", "b"]], always={"G": True}, Tocks=[0, 1], MaxSteps=2, Limit=3, Faults=["x", "k"], MaxFaults=1)),
           # a DoDoer's own extend() with two new doers where the enter of either may raise, and a DoDoer's remove() called in
           # the middle of its cycle with victims on both sides of the caller (seeded changes C02-a1 / C02-a2 hid there)
           ("dd-ext-fault", sched.mk([["G", "a", "b"], "c"], extra=["x", "y"], always={"G": True}, Tocks=[0], MaxSteps=2, Limit=3,
                                     MaxOps=1, EnterOuts=["ok", "x"], MaxFaults=1, ext={"G": [["x", "y"], ["x", "x"], ["a", "y", "y"]]})),
           ("dd-remove-mid", sched.mk([["G", "b", "c", "e"], "d"], Tocks=[0], MaxSteps=3, Limit=3, MaxOps=1,
                                      rem={"G": [["b", "e"], ["e", "b"], ["e", "c", "b"]]}))]
    big = sched.mk(["a", ["G", "b", ["H", "c", "e"]], "d", ["K", "f"]], extra=["x", "y", "z"], owntock={"K": 2},
                   Tocks=[0, 1, 2, 3], MaxSteps=5, Limit=6, Rets=["T", "F", "N"], Faults=["x", "k"], EnterOuts=["ok", "x", "r"],
                   MaxFaults=1, MaxOps=3, ext={"R": [["x"], ["x", "x"], ["a", "x", "y"]], "G": [["z"], ["b", "z"]]},
                   rem={"R": [["a"], ["d", "a"], ["G"], ["a", "a"], ["x"], ["K"]], "G": [["b"], ["H", "b"]], "H": [["c"], ["e", "c"]]})
    sim = [("big", big, 1200 if q else 90000)]
    if not q:
        mc.append(("deep-all", sched.mk(sched.DEEP, extra=["x"], Tocks=[0, 2], MaxSteps=3, Limit=3, ext={"G": [["x"]]},
                                        rem={"G": [["b"], ["H"]], "H": [["c"]]}, **faults, **ops)))
        exh.append(("two-faults", sched.mk(sched.TWO, Tocks=[0, 1], MaxSteps=2, Limit=3, **faults)))
    return dict(mc=mc, exh=exh, sim=sim)


def run(ctx):
    sched.run_family(ctx, "C01", ["TypeOK", "LifeOK", "AllOutAtEnd"], **plan(ctx))
    return ctx.finish(rule=RULE, assumptions=[
        "function-style doers follow the documented bareDo template; KeyboardInterrupt is only injected into class-based doers",
        "a removed doer is not re-added in the same run (that starts a second, separate life-cycle)"])
