"""C24 - Suber / IoSuber / IoSetSuber return what a dictionary of values / lists / ordered sets returns, for all keys.

MC:   specs/store/KeyStore.tla. `dict` is the dictionary; `db` is the implementation model (one ordered key space of real
      byte strings, values under key.<32 hex digits>, every method the cursor scan the code performs).  For key sets that
      include prefixes of each other and keys with the separator, ResultsAgree and ContentAgrees hold; for key sets with
      the listed finding's signature (k2 = k1 "." r, r[0] >= "0") TLC is expected to find the violation (the finding is
      still reachable in the design as coded).
S->C: histories (all short ones + simulated long ones, every successor of the last state) executed on the real classes
      over a real LMDB environment; every result is compared with the DICTIONARY.  A difference is the known finding only
      if the key set has the signature and the real result is exactly what the implementation model predicts.
"""
import shutil

from .. import core

KEYSETS = {
    # name: (TLA definition name, has the known-finding signature)
    "safe": ("SafeKeys", False),
    "bad": ("BadKeys", True),
}
FINDING = "C24-key-interleave"


def keystr(k):
    return bytes(k).decode()


def norm(r):
    if r is True:
        return "T"
    if r is False:
        return "F"
    if r is None:
        return "None"
    if isinstance(r, (list, tuple)):
        return [norm(x) for x in r]
    return r


def execute(kind, h, sub):
    out = []
    for e in h:
        op, key, a = e["op"], keystr(e["key"]), e["a"]
        try:
            with core.watchdog():
                if kind == "plain":
                    r = {"put": lambda: sub.put(key, a), "pin": lambda: sub.pin(key, a),
                         "get": lambda: sub.get(key), "rem": lambda: sub.rem(key)}[op]()
                else:
                    r = {"add": lambda: sub.add(key, a), "put": lambda: sub.put(key, list(a)),
                         "pin": lambda: sub.pin(key, list(a)), "get": lambda: sub.get(key),
                         "cnt": lambda: sub.cnt(key), "getFirst": lambda: sub.getFirst(key),
                         "getLast": lambda: sub.getLast(key), "pop": lambda: sub.pop(key),
                         "rem": lambda: sub.rem(key), "remval": lambda: sub.rem(key, a)}[op]()
            out.append(norm(r))
        except core.Hang:
            out.append("X:Hang")
        except Exception as ex:
            out.append("X:%s" % type(ex).__name__)
    return out


def judge(h, real, signature):
    """-> (violation text | None, known-finding text | None)"""
    for k, (e, r) in enumerate(zip(h, real)):
        if r == e["ares"]:
            continue
        what = "op %d %s(%r%s) returns %r, a dictionary returns %r (history %s)" % (
            k + 1, e["op"], keystr(e["key"]), "" if e["a"] == "-" else ", %r" % (e["a"],), r, e["ares"],
            [(x["op"], keystr(x["key"]), x["a"]) for x in h[:k + 1]])
        if signature and r == e["res"]:
            return None, what
        return what, None
    return None, None


def run(ctx):
    from hio.base import during
    root = core.scratch_dir("hioverif_c24_")
    vals = {"x", "y"}
    try:
        duror = during.Duror(name="c24", headDirPath=root, temp=False, reopen=True)
        subs = {"plain": during.Suber(db=duror, subkey="plain."), "io": during.IoSuber(db=duror, subkey="io."),
                "ioset": during.IoSetSuber(db=duror, subkey="ioset.")}
        import concurrent.futures
        combos = [(kind, ksname) for kind in ("plain", "io", "ioset") for ksname in KEYSETS
                  if not (kind == "plain" and KEYSETS[ksname][1])]

        def tlc_jobs(combo):
            kind, ksname = combo
            ksdef, signature = KEYSETS[ksname]
            consts = {"Keys": "<-" + ksdef, "Vals": vals, "Kind": '"%s"' % kind, "MaxEntries": 4,
                      "MaxOps": 3 if ctx.quick else 4}
            r = ctx.tlc("store", "MCKeyStore", core.cfg_text(constants=consts, view="MCView",
                                                             invariants=["ResultsAgree", "ContentAgrees"]), workers=4)
            g1 = ctx.tlc("store", "MCKeyStore", core.cfg_text(constants=dict(consts, MaxOps=2 if signature or not ctx.quick else 1),
                                                              constraints=["Dump"]), workers=1)
            nsim, dep = (30, 8) if ctx.quick else (1500, 12)
            g2 = ctx.tlc("store", "MCKeyStore", core.cfg_text(constants=dict(consts, MaxOps=dep, MaxEntries=6),
                                                              constraints=["Dump"]),
                         workers=1, simulate="num=%d" % nsim, depth=dep + 2)
            h3 = []
            if kind != "plain" and not signature:
                hc = dict(consts, Keys="<-HoleKeys", Vals={"x", "y", "z"}, MaxEntries=6, MaxOps=3 if ctx.quick else 4)
                r3 = ctx.tlc("store", "MCKeyStore", core.cfg_text(spec="HolesSpec", constants=hc, view="MCView",
                                                                  invariants=["ResultsAgree", "ContentAgrees"]), workers=4)
                r.violated = list(r.violated) + list(r3.violated)
                h3 = ctx.tlc("store", "MCKeyStore", core.cfg_text(spec="HolesSpec", constants=dict(hc, MaxOps=3), constraints=["Dump"]),
                             workers=1).tagged_json("BH")
                if len(h3) < 1000:
                    raise core.MachineryError("holes history dump too small: %d" % len(h3))
            return combo, r, g1.tagged_json("BH") + h3, g2.tagged_json("BH"), nsim

        with concurrent.futures.ThreadPoolExecutor(max_workers=len(combos)) as ex:
            results = list(ex.map(tlc_jobs, combos))
        for (kind, ksname), r, h1, h2, nsim in results:
            sub = subs[kind]
            signature = KEYSETS[ksname][1]
            if signature:
                if not r.violated:
                    ctx.note("%s: the implementation model no longer shows the key-interleaving finding" % kind)
            else:
                for v in r.violated:
                    ctx.violation("the %s model violates %s on the key set %s" % (kind, v, ksname), {"tlc": r.out[-4000:]})
            hs = h1 + h2
            nex = len(h1)
            if nex < 10 or len(h2) < nsim:
                raise core.MachineryError("history dump too small: %d + %d" % (nex, len(h2)))
            for i, h in enumerate(hs):
                sub.trim()
                real = execute(kind, h, sub)
                ctx.case((kind, ksname, tuple((e["op"], keystr(e["key"]), str(e["a"])) for e in h)),
                         {"kind": kind, "history": [(e["op"], keystr(e["key"]), e["a"], e["ares"]) for e in h]}
                         if i == nex + 3 else None)
                bad, known = judge(h, real, signature)
                if bad:
                    ctx.violation("%s: %s" % (kind, bad), {"kind": kind, "history": h, "real": real, "signature": signature})
                elif known:
                    ctx.violation("%s: %s" % (kind, known), {"kind": kind, "history": h}, finding=FINDING)
        duror.close()
        ctx.exhaustive = True
    finally:
        shutil.rmtree(root, True)
    return ctx.finish(rule="one case per (class, key set, operation history); key sets: {a, ab, a-, a., b} and {a, a.<32 hex "
                           "digits of 1>, a.B}; histories: all of length 1 or 2, all of length 3 over {a, ab} that begin with a put of three values "
                           "(ordinals with holes) + simulated ones of length 8/12 (every successor "
                           "of the last state); every result compared with the dictionary",
                      assumptions=["keys are non-empty strings within LMDB's key size limit; values non-empty strings",
                                   "put()/pin() with an empty list of values and ordinals >= 16 are outside the bounds"])


def replay_case(ctx, case):
    from hio.base import during
    root = core.scratch_dir("hioverif_c24_")
    try:
        duror = during.Duror(name="c24", headDirPath=root, temp=False, reopen=True)
        kind = case["kind"]
        sub = {"plain": during.Suber, "io": during.IoSuber, "ioset": during.IoSetSuber}[kind](db=duror, subkey=kind + ".")
        real = execute(kind, case["history"], sub)
        duror.close()
        bad, known = judge(case["history"], real, case.get("signature", False))
        return [bad] if bad else []
    finally:
        shutil.rmtree(root, True)
