"""C20 - memos survive segmentation into grams and any delivery order, duplication and interleaving.

MC:   specs/memo/Segment.tla (receiver state as coded + ghost history): NoPartialDelivery; AtMostOnce and
      DeliveredWhenComplete modulo the two listed findings (a complete second set of grams of a delivered memo delivers
      it again; a signed non-zeroth gram that arrives before its zeroth gram is dropped); TLC is also asked to reach
      both findings (they must still be reachable in the design as coded).
S->C: delivery sequences of the model (all short ones + tlc -simulate) replayed on a real receiving Memoer / AuthMemoer
      with real grams rent by a real sender, for all four zeroth-gram codes x base64 / binary headers; unicode memos whose
      multi-byte characters straddle gram boundaries; after every delivery the delivered (text, source, signer) list is
      compared.  Segmentation itself: for every legal gram size from the minimum up, short and long memos must be rent
      without error and reassemble exactly.
"""
import itertools

from .. import core

TEXT = {"a": "ä☃𝄞 alpha-", "b": "β日本 beta+", "c": "ç gamma"}
F_REDELIVER = "C20-redelivery"
F_REORDER = "C20-signed-reorder"
_KEYS = {}


SIGNERS = ("B", "D", "E")


def keys(signer="B"):
    """signer ids of the three kinds the library knows: "B" the id is the (only) verification key; "D" the id is the
    inception key of an identifier whose key has been rotated since - the current key is in the keep; "E" the id is a
    digest, the key is in the keep"""
    if signer not in _KEYS:
        import pysodium
        from hio.core.memo.memoing import Memoer, Keyage
        seed = bytes(range(32))
        verkey, sigkey = pysodium.crypto_sign_seed_keypair(seed)
        if signer == "B":
            vid = Memoer._encodeVID(verkey)
            keep = {vid: Keyage(qvk=Memoer._encodeQVK(verkey), qss=Memoer._encodeQSS(seed))}
        else:
            seed2 = bytes(range(100, 132))
            verkey2, _ = pysodium.crypto_sign_seed_keypair(seed2)
            vid = Memoer._encodeVID(verkey if signer == "D" else bytes(range(200, 232)), code=signer)
            keep = {vid: Keyage(qvk=Memoer._encodeQVK(verkey2), qss=Memoer._encodeQSS(seed2))}
        _KEYS[signer] = dict(vid=vid, keep=keep)
    return _KEYS[signer]


def codes():
    from hio.core.memo.memoing import MemoDex
    return [(MemoDex.GramZero, False), (MemoDex.GramSureZero, False), (MemoDex.GramAuthZero, True), (MemoDex.GramSureAuthZero, True)]


def mk(code, auth, curt=False, size=None, signer="B", via=False):
    """via: the Memoer is made with the other header encoding and another gram size and then set to (curt, size), as an
    application that reconfigures a live Memoer does: it must behave like one made with (curt, size)"""
    from hio.core.memo import memoing
    k = keys(signer)
    cls = memoing.AuthMemoer if auth else memoing.Memoer
    if via == "curt-only":      # only the header encoding is switched: the gram size must follow to the new minimum by itself
        m = cls(code=code, curt=not curt, size=size, keep=k["keep"], vid=k["vid"], authic=auth)
        m.curt = curt
    elif via:
        m = cls(code=code, curt=not curt, size=1, keep=k["keep"], vid=k["vid"], authic=auth)
        m.curt = curt
        m.size = size
    else:
        m = cls(code=code, curt=curt, size=size, keep=k["keep"], vid=k["vid"], authic=auth)
    m.opened = True
    m._echoic = True
    return m


def rend_into(code, auth, curt, text, want, signer="B"):
    """find a gram size for which `text` (repeated as needed) is rent into exactly `want` grams -> (memo text, grams)"""
    for rep in (1, 2, 3, 5, 8):
        memo = (text * rep)
        tx0 = mk(code, auth, curt, size=1, signer=signer)      # the setter raises the size to the minimum legal one
        for size in range(tx0.size, tx0.size + 400):
            tx = mk(code, auth, curt, size=size, signer=signer, via=bool(size % 2))
            try:
                grams = tx.rend(memo, keys(signer)["vid"] if auth else None)
            except Exception:
                continue
            if len(grams) == want:
                return memo, [bytes(g) for g in grams]
    raise core.MachineryError("no gram size splits the memo into %d grams for %s curt=%s" % (want, code, curt))


def replay(code, auth, curt, count, h, cache, signer="B"):
    key = (code, curt, tuple(sorted(count.items())), signer)
    if key not in cache:
        cache[key] = {m: rend_into(code, auth, curt, TEXT[m], n, signer) for m, n in count.items()}
    mats = cache[key]
    rx = mk(code, auth, signer=signer)
    got_hist = []
    for e in h:
        memo, grams = mats[e["m"]]
        rx.echos.append((grams[e["gn"]], "src-" + e["m"]))
        try:
            with core.watchdog():
                rx.serviceAllRx()
        except core.Hang:
            return None, "serviceAllRx() did not return"
        except Exception as ex:
            return None, "serviceAllRx() raised %s: %s" % (type(ex).__name__, ex)
        got_hist.append(list(rx.inbox))
    return got_hist, None


def judge(count, auth, h, got_hist, mats, flags, signer="B"):
    """property on the real run, model as reference; -> (violation, finding id, finding text)"""
    vid = keys(signer)["vid"] if auth else None
    seen = {m: set() for m in count}
    steps = []
    for k, e in enumerate(h):
        seen[e["m"]].add(e["gn"])
        steps.append((e["m"], e["gn"]))
        real = got_hist[k]
        names = []
        for (text, src, v) in real:
            m = next((x for x in count if mats[x][0] == text), None)
            if m is None:
                return "after deliveries %s a memo with altered content was delivered: %r" % (steps, text[:60]), None, None
            if src != "src-" + m or v != vid:
                return "after deliveries %s memo %s was delivered with source %r signer %r" % (steps, m, src, v), None, None
            names.append(m)
        for m in set(names):
            if seen[m] != set(range(count[m])):
                return "after deliveries %s memo %s was delivered although gram(s) %s never arrived" % (
                    steps, m, sorted(set(range(count[m])) - seen[m])), None, None
        want = list(e["delivered"])
        if names != want:
            dup = [m for m in set(names) if names.count(m) > 1]
            missing = [m for m in count if seen[m] == set(range(count[m])) and m not in names]
            if names == want:
                pass
            # the model (the receiver as coded) predicts the same list? then it is at most a listed finding
            return "after deliveries %s the delivered memos are %s, the receiver model says %s" % (steps, names, want), None, None
    # same as the model everywhere: the property's remaining clauses, with the findings' signatures
    final = [m for (t, s, v) in got_hist[-1] for m in count if mats[m][0] == t] if got_hist else []
    for m in count:
        if final.count(m) > 1:
            if flags["again"][m]:
                return None, F_REDELIVER, "deliveries %s deliver memo %s %d times" % (steps, m, final.count(m))
            return "deliveries %s deliver memo %s %d times" % (steps, m, final.count(m)), None, None
        if seen[m] == set(range(count[m])) and final.count(m) == 0:
            if flags["early"][m]:
                return None, F_REORDER, "deliveries %s never deliver memo %s although every gram arrived" % (steps, m)
            return "deliveries %s never deliver memo %s although every gram arrived" % (steps, m), None, None
    return None, None, None


def segmentation_sweep(ctx):
    """every legal gram size from the minimum up: rend must not raise and the grams must reassemble exactly"""
    for (code, auth) in codes():
        for curt in (False, True):
            base = mk(code, auth, curt, size=1).size
            # size 1 stands for: made with the smallest size of the OTHER encoding, then only .curt is switched
            for size in [1] + list(range(base, base + (48 if ctx.quick else 160))):
                for memo in ("x", "ä☃𝄞" * 3, "0123456789" * (9 if ctx.quick else 40)):
                    signer, via = (SIGNERS[size % 3] if auth else "B"), bool((size // 3) % 2)
                    if size == 1:
                        via = "curt-only"
                    ctx.case(("seg", code, curt, size, len(memo)))
                    tx = mk(code, auth, curt, size=size, signer=signer, via=via)
                    try:
                        # (every other size: the signer id is left to the sender's own .vid)
                        grams = tx.rend(memo, keys(signer)["vid"] if auth and size % 2 else None)
                    except Exception as ex:
                        ctx.violation("rend() of a %d character memo with code %s, %s headers, gram size %d raised %s: %s" % (
                            len(memo), code, "binary" if curt else "base64", size, type(ex).__name__, ex),
                            {"kind": "seg", "code": code, "auth": auth, "curt": curt, "size": size, "memo": memo, "signer": signer, "via": via})
                        continue
                    if size == 1 and tx.size < base:
                        ctx.violation("code %s: after switching to %s headers the gram size is %d, below the minimum %d of that encoding" % (
                            code, "binary" if curt else "base64", tx.size, base),
                            {"kind": "seg", "code": code, "auth": auth, "curt": curt, "size": size, "memo": memo, "signer": signer, "via": via})
                    if any(len(g) > (tx.size if size == 1 else size) for g in grams):
                        ctx.violation("code %s %s size %d: a gram of %d bytes exceeds the gram size" % (
                            code, "binary" if curt else "base64", size, max(len(g) for g in grams)),
                            {"kind": "seg", "code": code, "auth": auth, "curt": curt, "size": size, "memo": memo, "signer": signer, "via": via})
                    rx = mk(code, auth, signer=signer)
                    for g in grams:
                        rx.echos.append((bytes(g), "s"))
                    rx.serviceAllRx()
                    if [(t, s, v) for (t, s, v) in rx.inbox] != [(memo, "s", keys(signer)["vid"] if auth else None)]:
                        ctx.violation("code %s %s size %d: %d grams in send order reassemble to %r" % (
                            code, "binary" if curt else "base64", size, len(grams), [t[:40] for (t, s, v) in rx.inbox]),
                            {"kind": "seg", "code": code, "auth": auth, "curt": curt, "size": size, "memo": memo, "signer": signer, "via": via})


def run(ctx):
    gen = {"MCSegment.tla": open(core.SPECS + "/memo/MCSegment.tla").read()}
    cache = {}
    for signed in (False, True):
        for cname, count, maxd in (("C32", {"a": 3, "b": 2}, 7 if ctx.quick else 9), ("C21", {"a": 2, "b": 1}, 6)):
            r = ctx.tlc("memo", "MCSegment", core.cfg_text(constants={"Count": "<-" + cname, "Signed": signed, "MaxDeliveries": maxd},
                                                            invariants=["NoPartialDelivery", "AtMostOnceModuloFinding", "DeliveredModuloFinding"],
                                                            view="MCView"))
            for v in r.violated:
                ctx.violation("the receiver model violates %s" % v, {"tlc": r.out[-3000:]})
        # the findings must still be reachable in the design as coded
        r = ctx.tlc("memo", "MCSegment", core.cfg_text(constants={"Count": "<-C21", "Signed": signed, "MaxDeliveries": 6},
                                                        invariants=["AtMostOnce"] + (["DeliveredWhenComplete"] if signed else []), view="MCView"))
        if "AtMostOnce" not in r.violated:
            ctx.note("the receiver model no longer reaches the redelivery finding")
        hs = ctx.tlc("memo", "MCSegment", core.cfg_text(constants={"Count": "<-C21", "Signed": signed, "MaxDeliveries": 5},
                                                         constraints=["Dump"]), workers=1).tagged_json("BH")
        nex = len(hs)
        nsim, dep = (60, 9) if ctx.quick else (2500, 12)
        hs += ctx.tlc("memo", "MCSegment", core.cfg_text(constants={"Count": "<-C32", "Signed": signed, "MaxDeliveries": dep},
                                                          constraints=["Dump"]), workers=1, simulate="num=%d" % nsim, depth=dep + 2).tagged_json("BH")
        if nex < 150 or len(hs) - nex < nsim:
            raise core.MachineryError("delivery sequence dump too small: %d + %d" % (nex, len(hs) - nex))
        variants = [(c, a, curt) for (c, a) in codes() if a == signed for curt in (False, True)]
        for i, rec in enumerate(hs):
            h = rec["h"]
            count = {"a": 2, "b": 1} if i < nex else {"a": 3, "b": 2}
            code, auth, curt = variants[i % len(variants)]
            ctx.case((code, curt, tuple((e["m"], e["gn"]) for e in h)),
                     {"code": code, "binary_headers": curt, "deliveries": [(e["m"], e["gn"]) for e in h], "delivered": h[-1]["delivered"]}
                     if i == nex + 1 else None)
            signer = SIGNERS[(i // len(variants)) % 3] if auth else "B"
            got, err = replay(code, auth, curt, count, h, cache, signer)
            if err:
                ctx.violation("code %s %s: %s (deliveries %s)" % (code, "binary" if curt else "base64", err, [(e["m"], e["gn"]) for e in h]),
                              {"kind": "order", "code": code, "auth": auth, "curt": curt, "count": count, "rec": rec, "signer": signer})
                continue
            mats = cache[(code, curt, tuple(sorted(count.items())), signer)]
            bad, fid, ftext = judge(count, auth, h, got, mats, rec, signer)
            if bad:
                ctx.violation("code %s %s headers: %s" % (code, "binary" if curt else "base64", bad),
                              {"kind": "order", "code": code, "auth": auth, "curt": curt, "count": count, "rec": rec, "signer": signer})
            elif fid:
                ctx.violation("code %s: %s" % (code, ftext), {"rec": rec}, finding=fid)
    segmentation_sweep(ctx)
    ctx.exhaustive = True
    return ctx.finish(rule="delivery order: one case per (zeroth-gram code, header encoding, delivery sequence); sequences: all of length 5 "
                           "for memos of 2 and 1 grams + simulated ones of length 9/12 for memos of 3 and 2 grams; segmentation: one case "
                           "per (code, encoding, gram size from the minimum up, memo)",
                      assumptions=["grams are delivered through the receiver's .echos queue (the transport stub of Memoer)",
                                   "signatures are Ed25519 over fixed key pairs made with pysodium; signer ids rotate over the three kinds (B: the id "
                                   "is the key; D: inception key of a rotated identifier, current key in the keep; E: digest id)",
                                   "half of the senders are made with other settings and then set to (header encoding, gram size)"])


def replay_case(ctx, case):
    if case["kind"] == "seg":
        sg = case.get("signer", "B")
        tx = mk(case["code"], case["auth"], case["curt"], size=case["size"], signer=sg, via=case.get("via", False))
        try:
            grams = tx.rend(case["memo"], keys(sg)["vid"] if case["auth"] else None)
        except Exception as ex:
            return ["rend raised %s: %s" % (type(ex).__name__, ex)]
        rx = mk(case["code"], case["auth"], signer=sg)
        for g in grams:
            rx.echos.append((bytes(g), "s"))
        rx.serviceAllRx()
        return [] if [t for (t, s, v) in rx.inbox] == [case["memo"]] and all(len(g) <= case["size"] for g in grams) else ["grams do not reassemble"]
    cache = {}
    sg = case.get("signer", "B")
    got, err = replay(case["code"], case["auth"], case["curt"], case["count"], case["rec"]["h"], cache, sg)
    if err:
        return [err]
    mats = cache[(case["code"], case["curt"], tuple(sorted(case["count"].items())), sg)]
    bad, fid, ftext = judge(case["count"], case["auth"], case["rec"]["h"], got, mats, case["rec"], sg)
    return [bad] if bad else []
