"""C19 - client requests are sent one at a time, answered FIFO with their originating request; redirects are transparent.

MC:   specs/http/ClientQueue.tla for every queue of server scripts up to 3 (quick) / 4 requests, plain and secure client:
      OneAtATime, FifoOneToOne, WireInQueueOrder, RedirectTransparent, NoDowngrade, EveryRequestAnswered.
S->C: every queue is executed on a real http.Client whose tcp connectors get scripted sockets, against a scripted peer
      that follows the scripts (answers at once / some rounds later / with 201 Created and a Location field / redirects with relative or absolute Location, to the
      same or another server, two hops, https -> http / closes before or in the middle of its answer); the peer checks
      that it never sees a request while an earlier one is unanswered; the response queue (originating request, error
      flag, redirect history) and the sequence of requests on the wire are compared with the model's.
"""
from .. import core, httprig

def ok(rid):
    """the final answer to request rid: its own body, and alternately a header field / a chunked body with a trailer that the
    next answer does not have (nothing of one response may show up in the next)"""
    body = b"answer-%d" % rid
    if rid % 2:
        return b"HTTP/1.1 200 OK\r\nX-Only-Odd: %d\r\nContent-Length: %d\r\n\r\n%s" % (rid, len(body), body)
    return b"HTTP/1.1 200 OK\r\nTransfer-Encoding: chunked\r\n\r\n%x\r\n%s\r\n0\r\nX-Trail: %d\r\n\r\n" % (len(body), body, rid)
PORT = {"A": 8080, "B": 9090}


def redirect(loc):
    return b"HTTP/1.1 302 Found\r\nLocation: " + loc + b"\r\nContent-Length: 0\r\n\r\n"


TAGS = [0, "", (), 3, "four", 5.0]      # application tags (reply=) of the requests of a queue: falsy ones are tags too


def execute(queue, secure, make="scheme", slow=False, late=False):
    """slow: the kernel takes at most 9 bytes of a request per send() and every third send() would block"""
    rig = httprig.HttpClientRig(secure, make)
    problems = []
    try:
        def enqueue(i):
            if i % 2:
                # explicitly no query arguments and no header fields (empty, not None): nothing of the request before may be used
                rig.cli.request(method="POST", path="/p%d" % (i + 1), body=b"body%d" % i, rid=i + 1, reply=TAGS[i % len(TAGS)],
                                qargs={}, headers={})
            else:
                rig.cli.request(method="GET", path="/p%d" % (i + 1), qargs={"n": str(i)}, headers={"X-Get": str(i)}, rid=i + 1,
                                reply=TAGS[i % len(TAGS)])
        # late: only the first request is queued now, the others when the first response is there (the client has been used by then)
        for i in range(1 if late else len(queue)):
            enqueue(i)
        pending_late = list(range(1, len(queue))) if late else []
        outstanding = 0
        delayed = []            # [rounds to go, bytes]
        hop = {}
        with core.watchdog(20):
            for rnd in range((30 + 12 * len(queue)) * (8 if slow else 1)):
                if slow and rig.sock() is not None and not rig.sock().closed:
                    rig.sock().sendplan = ["blockw" if secure else "block"] if rnd % 3 == 2 else [9]
                rig.service()
                if pending_late and rig.cli.responses:
                    for i in pending_late:
                        enqueue(i)
                    pending_late = []
                for d in delayed:
                    d[0] -= 1
                for d in [d for d in delayed if d[0] <= 0]:
                    delayed.remove(d)
                    rig.answer(d[1])
                    outstanding -= 1
                for rq in rig.new_requests():
                    outstanding += 1
                    if outstanding > 1:
                        problems.append("the peer saw request %r while an earlier request was unanswered" % rq["line"])
                    path = rq["line"].split()[1].split("?")[0]
                    if path.startswith("/p"):
                        rid = int(path[2:])
                        query = rq["line"].split()[1].partition("?")[2]
                        if query != ("" if (rid - 1) % 2 else "n=%d" % (rid - 1)) or ("x-get" in rq["headers"]) != (not (rid - 1) % 2):
                            problems.append("request %d went out as %r with header fields %s" % (rid, rq["line"], sorted(rq["headers"])))
                        hop[rid] = 0
                        s = queue[rid - 1]
                    else:                                   # follow-up of a redirect: /h<rid>_<hop>
                        rid = int(path[2:].split("_")[0])
                        hop[rid] += 1
                        s = "redir-2b" if (queue[rid - 1] == "redir-2" and hop[rid] == 1) else (
                            "bad-location" if queue[rid - 1] == "redir-2bad" else "ok")
                    nxt = b"/h%d_%d" % (rid, hop[rid] + 1)
                    here = rq["to"][1]
                    scheme = b"https" if secure else b"http"
                    if s == "ok":
                        rig.answer(ok(rid))
                        outstanding -= 1
                    elif s == "notmod":
                        # a final answer that has no body by definition (304) although it names the length of the entity
                        rig.answer(b"HTTP/1.1 304 Not Modified\r\nContent-Length: 10\r\nETag: \"e%d\"\r\n\r\n" % rid)
                        outstanding -= 1
                    elif s == "created":
                        # a final answer that is NOT a redirect but carries a Location field (201 Created): nothing to follow
                        rig.answer(ok(rid).replace(b"200 OK\r\n", b"201 Created\r\nLocation: " + nxt + b"\r\n", 1))
                        outstanding -= 1
                    elif s == "delay":
                        delayed.append([3, ok(rid)])
                    elif s == "bad-location":
                        rig.answer(redirect(b"http://:99/nohost"))
                        outstanding -= 1
                    elif s in ("redir-rel", "redir-2b", "redir-2bad"):
                        rig.answer(redirect(nxt))
                        outstanding -= 1
                    elif s in ("redir-abs", "redir-2"):
                        rig.answer(redirect(scheme + b"://127.0.0.1:%d" % here + nxt))
                        outstanding -= 1
                    elif s == "redir-other":
                        rig.answer(redirect(scheme + b"://127.0.0.1:%d" % PORT["B"] + nxt))
                        outstanding -= 1
                    elif s == "redir-down":
                        rig.answer(redirect(b"http://127.0.0.1:%d" % PORT["B"] + nxt))
                        outstanding -= 1
                    elif s == "close-before":
                        rig.sock().script_recv(0, 1, "eof")
                        outstanding -= 1
                    elif s == "close-during":
                        rig.answer(b"HTTP/1.1 200 OK\r\nContent-Le")
                        rig.sock().script_recv(1 << 16, 1 << 16, "eof")
                        outstanding -= 1
        res = []
        for r in rig.cli.responses:
            rq = r.get("request") or {}
            rid = rq.get("rid")
            if rid is None and r.get("redirects"):
                rq = r["redirects"][0].get("request") or {}
                rid = rq.get("rid")
            if rid is not None and ("reply" not in rq or rq["reply"] != TAGS[(rid - 1) % len(TAGS)] or
                                    type(rq["reply"]) is not type(TAGS[(rid - 1) % len(TAGS)])):
                problems.append("the response to request %d does not carry the tag %r given with it: %r" % (
                    rid, TAGS[(rid - 1) % len(TAGS)], rq.get("reply", "no reply entry")))
            if rid is not None and not r.get("errored") and r.get("status") in (200, 201):
                hd = {k.lower(): v for k, v in (r.get("headers") or {}).items()}
                if bytes(r.get("body") or b"") != b"answer-%d" % rid:
                    problems.append("the response to request %d has body %r" % (rid, bytes(r.get("body") or b"")))
                if ("x-only-odd" in hd) != bool(rid % 2):
                    problems.append("the response to request %d has header fields %s" % (rid, sorted(hd)))
            res.append({"rid": rid, "kind": "errored" if r.get("errored") else "ok", "hops": len(r.get("redirects") or []),
                        "status": r.get("status"), "redirect_statuses": [x.get("status") for x in (r.get("redirects") or [])]})
        wire = []
        for x in rig.seen:
            path = x["line"].split()[1].split("?")[0]
            if path.startswith("/p"):
                wire.append({"rid": int(path[2:]), "port": x["to"][1], "hop": 0})
            else:
                a, b = path[2:].split("_")
                wire.append({"rid": int(a), "port": x["to"][1], "hop": int(b)})
        return {"responses": res, "wire": wire, "problems": problems, "waited": bool(rig.cli.waited)}
    except core.Hang:
        return {"raised": "service() did not return"}
    except Exception as ex:
        return {"raised": "%s: %s" % (type(ex).__name__, ex)}
    finally:
        rig.restore()


def judge(rec, real, secure):
    q = list(rec["queue"])
    desc = "%s client, server scripts %s" % ("https" if secure else "http", q)
    if "raised" in real:
        return "%s: Client.service() raised %s" % (desc, real["raised"])
    if real["problems"]:
        return "%s: %s" % (desc, real["problems"][0])
    want = [{"rid": r["rid"], "kind": r["kind"], "hops": r["hops"]} for r in rec["responses"]]
    got = [{"rid": r["rid"], "kind": r["kind"], "hops": r["hops"]} for r in real["responses"]]
    if got != want:
        return "%s: response queue is %s, should be %s" % (desc, got, want)
    for r in real["responses"]:
        final = {"created": 201, "notmod": 304}.get(q[r["rid"] - 1], 200) if r["rid"] else 200
        if r["kind"] == "ok" and (r["status"] != final or any(s != 302 for s in r["redirect_statuses"])):
            return "%s: response for request %s has status %s with redirect history %s" % (desc, r["rid"], r["status"], r["redirect_statuses"])
    wwant = [{"rid": w["rid"], "port": PORT[w["host"]], "hop": w["hop"]} for w in rec["wire"]]
    if real["wire"] != wwant:
        return "%s: requests on the wire were %s, should be %s" % (desc, real["wire"], wwant)
    return None


def run(ctx):
    scripts = {"ok", "delay", "created", "notmod", "redir-rel", "redir-abs", "redir-2", "redir-2bad", "redir-other", "redir-down", "close-before", "close-during"}
    inv = ["OneAtATime", "FifoOneToOne", "WireInQueueOrder", "RedirectTransparent", "NoDowngrade", "EveryRequestAnswered"]
    for secure in (False, True):
        r = ctx.tlc("http", "ClientQueue", core.cfg_text(constants={"Scripts": scripts, "MaxQ": 3 if ctx.quick else 4, "Secure": secure},
                                                          invariants=inv))
        for v in r.violated:
            ctx.violation("the model violates %s" % v, {"tlc": r.out[-3000:]})
        recs = ctx.tlc("http", "ClientQueueGen", core.cfg_text(constants={"Scripts": scripts, "MaxQ": 3 if ctx.quick else 4, "Secure": secure},
                                                                constraints=["Emit"]), workers=1).tagged_json("CQ")
        if len(recs) < 200:
            raise core.MachineryError("queue dump too small: %d" % len(recs))
        for i, rec in enumerate(recs):
            ctx.case((secure, tuple(rec["queue"])), {"secure": secure, "scripts": rec["queue"], "responses": rec["responses"]} if i == 150 else None)
            make = ("scheme", "connector")[i % 2]
            slow = (i % 3 == 1)
            late = (i % 4 >= 2)
            real = execute(list(rec["queue"]), secure, make, slow, late)
            bad = judge(rec, real, secure)
            if bad:
                ctx.violation(bad + (" [client made from a connector]" if make == "connector" else "") +
                              (" [requests leave in pieces of <= 9 bytes]" if slow else ""),
                              {"rec": rec, "secure": secure, "real": real, "make": make, "slow": slow, "late": late})
    ctx.exhaustive = True
    return ctx.finish(rule="every request carries an application tag (reply=; 0, '' and () among them) that must come back with its response; "
                           "clients are made alternately from (hostname, port, scheme) and from a ready tcp connector without scheme; "
                           "one case per (http | https client, queue of 1-3 (quick) / 1-4 server scripts; closing scripts only last)",
                      assumptions=["the originating request of an entry is identified by an extra key given to Client.request(), looked up "
                                   "in the entry's request or, for a redirected request, in the first entry of its redirect history",
                                   "which server later requests go to after a redirect to another server is the implementation's choice "
                                   "(the model follows the code: the client stays on the new server)",
                                   "a connection closed by the server is not reopened (connector not reconnectable): closing scripts are "
                                   "the last of their queue"])


def replay_case(ctx, case):
    real = execute(list(case["rec"]["queue"]), case["secure"], case.get("make", "scheme"), case.get("slow", False), case.get("late", False))
    bad = judge(case["rec"], real, case["secure"])
    return [bad] if bad else []
