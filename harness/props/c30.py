"""C30 - asyncio entry point ado() gives the same observable run as do()."""
from .. import sched
from . import c01, c03, c05


def run(ctx):
    p3, p5 = c03.plan(ctx), c05.plan(ctx)
    # also how a run ends other than by completion or limit: a doer raising, a keyboard interrupt, a failing enter
    exh = p3["exh"][:2] + p5["exh"][:2] + [e for e in p5["exh"] if e[0] in ("always", "fault", "ext-lim")] + \
        [e for e in c01.plan(ctx)["exh"] if e[0] in ("flat3-faults", "nest-faults")]
    sim = [("big", p3["sim"][0][1], 300 if ctx.quick else 24000)]
    sched.run_family(ctx, "C30", ["TypeOK", "EndExact"], exh=exh, sim=sim, keys=["full", "C01", "C02", "C03", "C05"], modes=("do", "ado"))
    return ctx.finish(rule=c03.RULE + "; every behaviour is run with Doist.do() and with asyncio.run(Doist.ado()) on fresh objects; "
                      "both complete event logs, final flags, tyme and forced exits must equal the model's (hence each other)",
                      assumptions=["non real-time mode; no other tasks on the event loop"])
