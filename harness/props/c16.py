"""C16 - no bytes from the peer can make servicing an HTTP server or client raise.

MC:   specs/http/Robust.tla: the allowed outcomes of servicing per input class on two connections (NeverRaised,
      SiblingServed: a well formed request on a clean open connection is served whatever happened on the other one).
C->S: real http.Server (WSGI), http.BareServer and http.Client are driven over scripted sockets with well formed
      messages, every named malformation in several concrete variants (no space after the colon, non-hex / signed /
      empty chunk sizes, bad chunk end, out-of-range ports and bad IPv6 in absolute URLs, huge lines, bad start lines and
      versions, bad content lengths, non-ASCII bytes, every truncation followed by close, random bytes), whole and byte by
      byte; each execution is recorded (connection, class, outcome) and validated in batch by RobustTrace.tla.  An
      event whose servicing raised is rejected by the specification.
"""
import random

from .. import core, fakesock, httprig, tcpadapt

VALID = b"GET /x?a=1 HTTP/1.1\r\nHost: h\r\n\r\n"
VALID_POST = b"POST /x HTTP/1.1\r\nHost: h\r\nContent-Length: 3\r\n\r\nabc"


def chunked(size, data=b"abc", end=b"\r\n"):
    return b"POST /x HTTP/1.1\r\nHost: h\r\nTransfer-Encoding: chunked\r\n\r\n" + size + b"\r\n" + data + end + b"0\r\n\r\n"


def request_variants():
    v = {}
    v["valid"] = [VALID, VALID_POST, chunked(b"3"), b"GET / HTTP/1.1\nHost: h\n\n"]
    v["valid10"] = [b"GET /x HTTP/1.0\r\n\r\n", b"GET /x HTTP/1.0\r\nConnection: keep-alive\r\n\r\n"]
    v["nospace"] = [b"GET / HTTP/1.1\r\nHost:h\r\n\r\n", b"GET / HTTP/1.1\r\nHost: h\r\nX-A:b\r\n\r\n", b"GET / HTTP/1.1\r\nHost: h\r\nNoColon\r\n\r\n",
                    b"GET / HTTP/1.1\r\nHost: h\r\n: novalue\r\n\r\n", b"GET / HTTP/1.1\r\nHost: h\r\nX-A:\r\n\r\n"]
    v["badchunk"] = [chunked(s) for s in (b"zz", b"-2", b"+2", b"0x2", b"1_0", b"", b" ", b"g", b"3;", b";x", b"3 3", b"\xff")]
    v["chunkend"] = [chunked(b"3", end=b"XX"), chunked(b"3", end=b"\n"), chunked(b"2")]
    v["badurl"] = [b"GET http://h:99999/ HTTP/1.1\r\nHost: h\r\n\r\n", b"GET http://[::1/ HTTP/1.1\r\nHost: h\r\n\r\n",
                   b"GET http://h:abc/ HTTP/1.1\r\nHost: h\r\n\r\n", b"GET //[/ HTTP/1.1\r\nHost: h\r\n\r\n",
                   b"GET http://h:-1/ HTTP/1.1\r\nHost: h\r\n\r\n", b"GET http://[v1.x]/ HTTP/1.1\r\nHost: h\r\n\r\n",
                   b"GET //%5Bx/ HTTP/1.1\r\nHost: h\r\n\r\n", b"GET /%5B::1/?q=%5D HTTP/1.1\r\nHost: h\r\n\r\n", b"GET http://:99/x HTTP/1.1\r\nHost: h\r\n\r\n"]
    v["hugeline"] = [b"GET /" + b"a" * 70000 + b" HTTP/1.1\r\nHost: h\r\n\r\n", b"GET / HTTP/1.1\r\nHost: " + b"h" * 70000 + b"\r\n\r\n",
                     b"a" * 70000]
    v["badstart"] = [b"\r\n\r\n", b"GARBAGE\r\n\r\n", b"GET\r\n\r\n", b"GET / HTTP/9.9\r\nHost: h\r\n\r\n", b"BAD / HTTP/1.1\r\nHost: h\r\n\r\n",
                     b"GET / FTP/1.1\r\n\r\n", b"GET  /  HTTP/1.1  extra\r\nHost: h\r\n\r\n", b" \r\n", b"GET / HTTP/1.1 x y z\r\n\r\n", b"\x00\x01\x02\r\n\r\n"]
    v["badcl"] = [b"POST / HTTP/1.1\r\nHost: h\r\nContent-Length: abc\r\n\r\nabc", b"POST / HTTP/1.1\r\nHost: h\r\nContent-Length: -5\r\n\r\nabc",
                  b"POST / HTTP/1.1\r\nHost: h\r\nContent-Length: 1 2\r\n\r\nabc", b"POST / HTTP/1.1\r\nHost: h\r\nContent-Length: 99999999999999999999\r\n\r\nabc"]
    v["nonascii"] = [b"GET /\xff\xfe HTTP/1.1\r\nHost: h\r\n\r\n", b"GET / HTTP/1.1\r\nHost: h\r\nX-\xff: \xfe\r\n\r\n", b"GET /%zz%ff HTTP/1.1\r\nHost: h\r\n\r\n",
                     b"GET /\xc3\x28 HTTP/1.1\r\nHost: h\r\n\r\n", b"GET / HTTP/1.1\r\nHost: h\r\nContent-Type: text/plain;charset=\xff\r\n\r\n",
                     b"POST / HTTP/1.1\r\nHost: h\r\nContent-Type: application/json\r\nContent-Length: 2\r\n\r\n\xff{"]
    v["manyheaders"] = [b"GET / HTTP/1.1\r\n" + b"".join(b"X-%d: v\r\n" % i for i in range(300)) + b"\r\n"]
    return v


def truncations(msg):
    return [msg[:i] for i in range(1, len(msg))]


def response_variants():
    ok = b"HTTP/1.1 200 OK\r\nContent-Length: 2\r\n\r\nok"
    v = {}
    v["valid"] = [ok, b"HTTP/1.1 200 OK\r\nTransfer-Encoding: chunked\r\n\r\n2\r\nok\r\n0\r\n\r\n", b"HTTP/1.0 200 OK\nContent-Length: 2\n\nok"]
    v["nospace"] = [b"HTTP/1.1 200 OK\r\nContent-Length:2\r\n\r\nok", b"HTTP/1.1 200 OK\r\nNoColon\r\nContent-Length: 2\r\n\r\nok"]
    v["badstart"] = [b"HTTP/1.1 abc OK\r\n\r\n", b"GARBAGE\r\n\r\n", b"HTTP/1.1\r\n\r\n", b"HTTP/9.9 200 OK\r\n\r\n", b"FTP/1.1 200 OK\r\n\r\n", b"\r\n\r\n",
                     b"HTTP/1.1 99999 X\r\n\r\n", b"HTTP/1.1 20 X\r\n\r\n", b"\x00\xff\r\n\r\n", b"HTTP/1.1 200\r\n\r\n"]
    v["badchunk"] = [b"HTTP/1.1 200 OK\r\nTransfer-Encoding: chunked\r\n\r\n" + s + b"\r\nok\r\n0\r\n\r\n" for s in (b"zz", b"-2", b"+2", b"0x2", b"", b"\xff")]
    v["chunkend"] = [b"HTTP/1.1 200 OK\r\nTransfer-Encoding: chunked\r\n\r\n2\r\nokXX0\r\n\r\n"]
    v["continue"] = [b"HTTP/1.1 100 Continue\r\n\r\n" + ok, b"HTTP/1.1 100 Continue\r\nX: y\r\n\r\n" + ok,
                     b"HTTP/1.1 100 Continue\r\nX: y\r\nZ: w\r\n\r\nHTTP/1.1 100 Continue\r\n\r\n" + ok]
    v["badredirect"] = [b"HTTP/1.1 302 Found\r\nLocation: http://:99/x\r\nContent-Length: 0\r\n\r\n",
                        b"HTTP/1.1 302 Found\r\nLocation: http://no.such.host.invalid/x\r\nContent-Length: 0\r\n\r\n",
                        b"HTTP/1.1 301 Moved\r\nLocation: //\r\nContent-Length: 0\r\n\r\n",
                        b"HTTP/1.1 307 T\r\nLocation: http://h:0x50/\r\nContent-Length: 0\r\n\r\n",
                        b"HTTP/1.1 303 See\r\nLocation: ftp://127.0.0.1/x\r\nContent-Length: 0\r\n\r\n",
                        b"HTTP/1.1 302 Found\r\nLocation: \xff\xfe\r\nContent-Length: 0\r\n\r\n",
                        b"HTTP/1.1 302 Found\r\nLocation: ?\r\nContent-Length: 0\r\n\r\n"]
    v["badcl"] = [b"HTTP/1.1 200 OK\r\nContent-Length: abc\r\n\r\nok", b"HTTP/1.1 200 OK\r\nContent-Length: -1\r\n\r\nok"]
    v["hugeline"] = [b"HTTP/1.1 200 " + b"O" * 70000 + b"\r\n\r\n", b"HTTP/1.1 200 OK\r\nX: " + b"y" * 70000 + b"\r\n\r\n"]
    v["nonascii"] = [b"HTTP/1.1 200 \xff\xfe\r\nContent-Length: 0\r\n\r\n", b"HTTP/1.1 200 OK\r\nX-\xff: \xfe\r\nContent-Length: 0\r\n\r\n",
                     b"HTTP/1.1 200 OK\r\nContent-Type: application/json\r\nContent-Length: 2\r\n\r\n\xff{",
                     b"HTTP/1.1 302 Found\r\nLocation: http://h:99999/\r\nContent-Length: 0\r\n\r\n",
                     b"HTTP/1.1 302 Found\r\nLocation: http://[::1/\r\nContent-Length: 0\r\n\r\n",
                     b"HTTP/1.1 302 Found\r\nContent-Length: 0\r\n\r\n"]
    return v


def server_event(rig, c, cls, data, bytewise, eof=False):
    """feed data to connection c of the real server, service, classify the outcome"""
    try:
        with core.watchdog():
            if bytewise:
                for i in range(len(data)):
                    rig.feed(c, data[i:i + 1])
                    rig.service(1)
                if eof:
                    rig.feed(c, b"", eof=True)
            else:
                rig.feed(c, data, eof=eof)
            rig.service(3)
    except core.Hang:
        return "raised", "service() did not return"
    except Exception as ex:
        return "raised", "%s: %s" % (type(ex).__name__, ex)
    out = rig.take(c)
    if out.startswith(b"HTTP/1.1 2") or out.startswith(b"HTTP/1.0 2"):
        return "served", None
    if out.startswith(b"HTTP/1."):
        return "error", None
    if rig.closed(c):
        return "closed", None
    return "pending", None


class ClientRig:
    def __init__(self):
        from hio.base import tyming
        from hio.core import http, tcp
        self.tymist = tyming.Tymist(tyme=0.0)
        self.f = fakesock.FakeConn(ca=("127.0.0.1", 56000))
        conn = tcp.Client(tymth=self.tymist.tymen(), host="127.0.0.1", port=56000)
        conn.cs, conn.opened, conn.accepted = self.f, True, True
        self.cli = http.Client(connector=conn, hostname="127.0.0.1", port=56000)

    def event(self, cls, data, bytewise):
        self.cli.request(method="GET", path="/x")
        n0 = len(self.cli.responses)
        try:
            with core.watchdog():
                self.cli.service()
                if bytewise:
                    for i in range(len(data)):
                        self.f.inbox.extend(data[i:i + 1])
                        self.cli.service()
                else:
                    self.f.inbox.extend(data)
                for _ in range(3):
                    self.cli.service()
        except core.Hang:
            return "raised", "service() did not return"
        except Exception as ex:
            return "raised", "%s: %s" % (type(ex).__name__, ex)
        if len(self.cli.responses) > n0:
            r = self.cli.responses[-1]
            return ("error" if r.get("errored") else "served"), None
        if self.f.closed:
            return "closed", None
        return "pending", None


def token_mutations(tokens, rng):
    """near-valid messages: every token of a grammar-generated message deleted, doubled, or replaced"""
    repl = [b"", b"\r", b"\n\r", b"\x00", b"\xff\xfe", b":", b" ", b"-1", b"zz", b"99999999999999999999", b";", b"="]
    out = []
    for i, t in enumerate(tokens):
        out.append(b"".join(tokens[:i] + tokens[i + 1:]))
        out.append(b"".join(tokens[:i] + [t, t] + tokens[i + 1:]))
        for r in rng.sample(repl, 3):
            out.append(b"".join(tokens[:i] + [r] + tokens[i + 1:]))
        if len(t) > 1:
            k = rng.randrange(1, len(t))
            out.append(b"".join(tokens[:i] + [t[:k] + rng.choice(repl) + t[k:]] + tokens[i + 1:]))
    return out


def run(ctx):
    import contextlib
    import io
    with contextlib.redirect_stderr(io.StringIO()):     # the servers report bad requests on stderr
        return run_(ctx)


def run_(ctx):
    classes = {"rbadchunk", "rchunkend", "rhugeline", "valid", "valid10", "nospace", "badchunk", "chunkend", "badurl", "hugeline", "badstart", "badcl", "nonascii",
               "manyheaders", "truncated", "random", "mutated", "continue", "badredirect"}
    consts = {"Conns": {1, 2}, "Classes": classes, "MaxSteps": 3}
    r = ctx.tlc("http", "Robust", core.cfg_text(constants=dict(consts, Classes={"valid", "nospace", "random"}),
                                                invariants=["NeverRaised"], properties=["SiblingServed"]))
    for v in r.violated:
        ctx.violation("the model violates %s" % v, {"tlc": r.out[-3000:]})
    rng = random.Random(ctx.seed)
    traces, detail = [], []

    def record(trace, info):
        traces.append(trace)
        detail.append(info)

    rv = request_variants()
    rv["truncated"] = truncations(VALID_POST)[::1 if not ctx.quick else 2] + truncations(chunked(b"3"))[::3]
    nrand = 60 if ctx.quick else 12000
    for kind, key in (("req", "mutated"), ("resp", "rmutated")):
        msgs = ctx.tlc("http", "MessageGen", core.cfg_text(
            constants={"Kind": '"%s"' % kind, "MaxPipe": 1, "Bodies": {"none", "cl", "ch2x", "ch2t"} | ({"close"} if kind == "resp" else set()),
                       "Restrict": True}, constraints=["Emit"]), workers=1).tagged_json("MSG")
        # the well formed messages of the grammar themselves (chunk extensions, trailers, bare LF, ...): class valid / valid10
        whole = ctx.tlc("http", "MessageGen", core.cfg_text(
            constants={"Kind": '"%s"' % kind, "MaxPipe": 1, "Bodies": {"none", "cl0", "cl", "ch1", "ch2x", "ch2t", "ch0"}, "Restrict": False},
            constraints=["Emit"]), workers=1).tagged_json("MSG")
        if len(whole) < 100:
            raise core.MachineryError("message dump too small: %d" % len(whole))
        for pipe in (whole[::4] if ctx.quick else whole):
            m = pipe[0]
            data = "".join(m["tokens"]).encode("latin-1")
            if kind == "req":
                # (valid10: a non persistent request; the bare server closes those without an answer, which the class allows)
                rv["valid10" if m["m"]["ver"] == "1.0" or m["m"]["conn"] == "close" else "valid"].append(data)
            elif not m["expect"]["untilclose"]:      # (a body that runs until the peer closes is still pending here)
                globals().setdefault("_RV", []).append(data)
        picked = rng.sample(msgs, 12 if ctx.quick else len(msgs))
        muts = []
        for pipe in picked:
            muts += token_mutations([t.encode("latin-1") for t in pipe[0]["tokens"]], rng)
        (rv if kind == "req" else globals().setdefault("_RM", {}))[key] = muts
    rv["random"] = [bytes(rng.randrange(256) for _ in range(rng.choice([1, 5, 40, 200]))) for _ in range(nrand)] + \
                   [bytes(rng.choice(b"GET /HTP1.\r\n: ;=0a") for _ in range(rng.choice([10, 60]))) for _ in range(nrand)]
    for flavour in ("wsgi", "bare"):
        for cls, variants in rv.items():
            for data in variants:
                for bytewise in ((False, True) if len(data) < 400 else (False,)):
                    rig = httprig.HttpServerRig(flavour, 2)
                    tr, info = [], {"side": flavour, "cls": cls, "data": data.decode("latin-1"), "bytewise": bytewise}
                    ok = True
                    mcls = cls
                    for c, k, d in ((1, mcls, data), (2, "valid", VALID), (1, "valid", VALID)):
                        if rig.closed(c):
                            continue
                        out, err = server_event(rig, c, k, d, bytewise and c == 1 and d is data, eof=(cls == "truncated" and d is data))
                        tr.append({"c": c, "cls": k, "out": out})
                        if err:
                            info["err"] = err
                            break
                    ctx.case((flavour, cls, data[:200], bytewise), info if cls == "badurl" and len(ctx.samples) < 2 else None)
                    record(tr, info)
    cv = response_variants()
    cv["truncated"] = truncations(cv["valid"][0])
    cv["random"] = rv["random"][: (40 if ctx.quick else 6000)]
    cv["mutated"] = globals()["_RM"]["rmutated"]
    cv["valid"] = cv["valid"] + globals().get("_RV", [])
    for cls, variants in cv.items():
        for data in variants:
            for bytewise in ((False, True) if len(data) < 400 else (False,)):
                rig = ClientRig()
                info = {"side": "client", "cls": cls, "data": data.decode("latin-1"), "bytewise": bytewise}
                out, err = rig.event(cls, data, bytewise)
                if err:
                    info["err"] = err
                ctx.case(("client", cls, data[:200], bytewise))
                mcls = {"badchunk": "rbadchunk", "chunkend": "rchunkend", "hugeline": "rhugeline"}.get(cls, cls)
                record([{"c": 1, "cls": mcls, "out": out}], info)
    res = core.validate_traces(ctx, "http", "RobustTrace",
                               core.cfg_text(spec="TSpec", constants=dict(consts, MaxSteps=100), constraints=["Progress"],
                                             invariants=["NeverRaised"]), traces)
    for tr, info, v in zip(traces, detail, res):
        ctx.traces += 1
        if v["maxl"] != len(tr) + 1:
            k = max(v["maxl"], 1)
            e = tr[k - 1]
            if e["out"] == "raised":
                what = "servicing raised %s" % info.get("err")
            elif e["cls"].startswith("r") and e["cls"][1:] in ("badchunk", "chunkend", "hugeline"):
                what = "a response that breaks the framing rules was not reported through the error flag (outcome %s)" % e["out"]
            else:
                what = "a well formed request on clean connection %d was not served (outcome %s)" % (e["c"], e["out"])
            ctx.violation("%s, input class %s %r%s: %s" % (info["side"], info["cls"], info["data"][:120].encode("latin-1"),
                                                          " (byte by byte)" if info["bytewise"] else "", what),
                          {"info": info, "trace": tr})
    ctx.samples.append({"trace": traces[5], "input": detail[5]})
    return ctx.finish(rule="one case per (endpoint, input class, concrete bytes, whole | bytewise); server executions are three events: the "
                           "input on connection 1, a well formed request on connection 2, a well formed request on connection 1 if it "
                           "is still open",
                      assumptions=["outcome classes are read off the bytes the endpoint sent and the state of the scripted socket; the WSGI "
                                   "application is a fixed 200 responder"])


def replay_case(ctx, case):
    info = case["info"]
    data = info["data"].encode("latin-1")
    if info["side"] == "client":
        out, err = ClientRig().event(info["cls"], data, info["bytewise"])
        return ["servicing raised %s" % err] if err else []
    rig = httprig.HttpServerRig(info["side"], 2)
    out, err = server_event(rig, 1, info["cls"], data, info["bytewise"], eof=info["cls"] == "truncated")
    if err:
        return ["servicing raised %s" % err]
    out, err = server_event(rig, 2, "valid", VALID, False)
    return ["servicing raised %s" % err] if err else ([] if out == "served" else ["sibling not served: %s" % out])
