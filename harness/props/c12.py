"""C12 - idle HTTP connections time out after the configured tymeout of virtual time; busy or persistent ones do not.

MC:   specs/http/Idle.tla: ClosedOnlyIfIdle, IdleGetsClosed, TrafficKeepsOpen, PersistentStays for every timing of client
      activity (nothing / bytes of an unfinished request / a complete persistent request / a non persistent request answered
      by a streaming application) over MaxTyme ticks, T in {1,2,3}, with at most one Server.wind() onto a Tymist whose tyme
      base is earlier or later.
S->C: every behaviour of the model is executed on a real http.Server (WSGI, plain and TLS servant) and http.BareServer
      driven by a Tymist's virtual tyme over scripted sockets, one service() per tick; the tick at which the peer's
      socket is closed must be the model's, at three time scales.
"""
import json

from .. import core, fakesock, tcpadapt

REQ = b"GET /x HTTP/1.1\r\nHost: h\r\nContent-Length: 0\r\n\r\n"
BYTES = [b"GET /x HT", b"TP/1.1\r\nHo", b"st: h\r\nX-A: ", b"a", b"b", b"c", b"d", b"e", b"f", b"g", b"h", b"i", b"j"]


PATTERN = [None]      # answer pattern of the application to the non persistent request of the behaviour being replayed


def app(environ, start_response):
    if "close" in environ.get("HTTP_CONNECTION", ""):
        start_response('200 OK', [('Content-Type', 'text/plain')])       # no length: streamed in chunks

        def body(pat):
            if pat == ["stall"]:
                while True:
                    yield b""
            if pat == ["blocked"] or pat == ["slow"]:
                while True:
                    yield b"piece"
            for x in pat:
                yield b"piece" if x == "p" else b""
        return body(list(PATTERN[0]))
    start_response('200 OK', [('Content-Type', 'text/plain'), ('Content-Length', '2')])
    return [b"ok"]


class Rig:
    def __init__(self, flavour, T, q):
        from hio.base import tyming
        from hio.core import http
        from hio.core.tcp import serving
        self.tymist = tyming.Tymist(tyme=0.0)
        self.q = q
        self.restore = lambda: None
        tls = flavour == "wsgi-tls"
        servant = None
        if tls:
            real_wrap = serving.RemoterTls.wrap
            serving.RemoterTls.wrap = lambda self_: None
            self.restore = lambda: setattr(serving.RemoterTls, "wrap", real_wrap)
            servant = serving.ServerTls(host="127.0.0.1", port=56000, tymeout=T * q, tymth=self.tymist.tymen(),
                                        context=tcpadapt.ctx(True))
        if flavour == "bare":
            self.srv = http.BareServer(host="127.0.0.1", port=56000, timeout=T * q, tymth=self.tymist.tymen())
        else:
            self.srv = http.Server(host="127.0.0.1", port=56000, app=app, tymeout=T * q, tymth=self.tymist.tymen(),
                                   servant=servant, scheme="https" if tls else "http")
        self.listen = fakesock.FakeListen(ha=("127.0.0.1", 56000))
        self.srv.servant.ss = self.listen
        self.srv.servant.opened = True
        self.f = fakesock.FakeConn(tls=tls)
        self.listen.pending.append(self.f)
        self.nbytes = 0
        self.ticks = 0
        PATTERN[0] = None

    def tick(self, ev):
        ev, arg = ev[0], (ev[1] if len(ev) > 1 else None)
        if ev == "wind":
            # the server is wound onto another Tymist whose tyme is (services so far + base) ticks
            from hio.base import tyming
            self.tymist = tyming.Tymist(tyme=(self.ticks + int(arg)) * self.q)
            # (BareServer has no wind() of its own: its tcp server is wound, as a ServerDoer would do)
            (self.srv.wind if hasattr(self.srv, "wind") else self.srv.servant.wind)(self.tymist.tymen())
        if not self.f.closed:
            if ev == "reqclose":
                PATTERN[0] = list(arg or [])
                self.f.inbox.extend(self.finish(close=True) if self.nbytes else
                                    b"GET /c HTTP/1.1\r\nHost: h\r\nConnection: close\r\n\r\n")
            elif ev == "bytes":
                self.f.inbox.extend(BYTES[self.nbytes % len(BYTES)])
                self.nbytes += 1
            elif ev == "request":
                # complete what was begun so that exactly one well formed persistent request ends here
                self.f.inbox.extend(b"\r\n\r\n" if 0 < self.nbytes <= 2 and False else b"")
                self.f.inbox.extend(REQ if self.nbytes == 0 else self.finish())
        if PATTERN[0] == ["blocked"] and not self.f.closed:
            # the peer stopped reading when it sent its request: the kernel takes nothing more, every send() would block
            self.f.sendplan = ["blockw" if self.f.tls else "block"] * 64
        if PATTERN[0] == ["slow"] and not self.f.closed:
            # the peer reads slowly: the kernel takes three bytes of whatever is offered first, then nothing more in this service
            self.f.sendplan = [3] + ["blockw" if self.f.tls else "block"] * 64
        self.srv.service()
        st = "closed" if self.f.closed else "open"
        self.tymist.tick(tock=self.q)
        self.ticks += 1
        return st

    def finish(self, close=False):
        """bytes that complete the request begun by the BYTES pieces sent so far (a header value or a header line)"""
        sent = b"".join(BYTES[:min(self.nbytes, len(BYTES))])
        whole = b"GET /x HTTP/1.1\r\nHost: h\r\nX-A: "
        if len(sent) <= len(whole):
            rest = whole[len(sent):]
        else:
            rest = b""
        self.nbytes = 0
        return rest + b"z\r\n" + (b"Connection: close\r\n" if close else b"") + b"Content-Length: 0\r\n\r\n"


def replay(flavour, T, q, h):
    rig = Rig(flavour, T, q)
    try:
        for k, e in enumerate(h):
            try:
                with core.watchdog():
                    st = rig.tick(e["ev"])
            except core.Hang:
                return "service() did not return at tick %d" % k
            except Exception as ex:
                return "service() raised %s: %s at tick %d" % (type(ex).__name__, ex, k)
            want = "closed" if e["state"] == "closed" else "open"
            if e["state"] == "ended" and T == 0:
                want = st
            if st != want:
                evs = [x["ev"][0] if len(x["ev"]) == 1 else tuple(x["ev"]) for x in h[:k + 1]]
                return "tymeout %s, client activity per tick %s: connection is %s after the service at tyme %s, should be %s" % (
                    T * q, evs, st, k * q, want)
    finally:
        rig.restore()
    return None


def run(ctx):
    props = ["ClosedOnlyIfIdle", "IdleGetsClosed", "TrafficKeepsOpen", "PersistentStays"]
    maxt = 8 if ctx.quick else 10
    scales = [1.0, 0.25, 3.0]
    gen = {"MCIdle.tla": open(core.SPECS + "/http/MCIdle.tla").read()}
    for T in (1, 2, 3):
        r = ctx.tlc("http", "MCIdle", core.cfg_text(constants={"T": T, "MaxTyme": maxt + 2, "Pats": "<-MCPats", "Bases": "<-MCBases"}, properties=props), gen=gen)
        for v in r.violated:
            ctx.violation("the model violates %s" % v, {"tlc": r.out[-4000:]})
        hs = ctx.tlc("http", "MCIdle", core.cfg_text(constants={"T": T, "MaxTyme": maxt, "Pats": "<-MCPats", "Bases": "<-MCBases"}, constraints=["Dump"]),
                     workers=1, gen=gen).tagged_json("BH")
        if len(hs) < 20:
            raise core.MachineryError("behaviour dump too small: %d" % len(hs))
        for i, h in enumerate(hs):
            streaming = any(e["ev"][0] == "reqclose" for e in h)
            for flavour in (("wsgi", "wsgi-tls") if streaming else ("wsgi", "wsgi-tls", "bare")):     # BareServer has no streaming application
                q = scales[i % len(scales)]
                ctx.case((flavour, T, json.dumps([e["ev"] for e in h])),
                         {"server": flavour, "tymeout": T, "activity": [e["ev"] for e in h], "states": [e["state"] for e in h]}
                         if i == 100 and flavour == "wsgi" else None)
                bad = replay(flavour, T, q, h)
                if bad:
                    ctx.violation("%s: %s" % (flavour, bad), {"flavour": flavour, "T": T, "q": q, "behaviour": h})
    ctx.exhaustive = True
    return ctx.finish(rule="one case per (server flavour, tymeout in ticks, client activity per tick over %d ticks); time scales "
                           "1, 1/4, 3 rotate over the behaviours" % maxt,
                      assumptions=["traffic is client bytes read by the server and the server's answer to a complete request; one "
                                   "service() per tick of virtual tyme; exact (dyadic) time scales"])


def replay_case(ctx, case):
    bad = replay(case["flavour"], case["T"], case["q"], case["behaviour"])
    return [bad] if bad else []
