"""C07 - real-time pacing never early, no drift (specs/time/RealPacing.tla).

MC:   NeverEarly and NoDrift on the model of MonoTimer + the do() loop against every clock environment in the bound.
S->C: every maximal behaviour (environment script + expected cycle start times) is replayed on a real
      Doist(real=True) whose `time` module is a fake driven by that environment; cycle start times must be equal.
"""
from .. import core

SCALES = [0.03125, 0.25, 1.0]


class FakeTime:
    def __init__(self, q, env, shift=0):
        self.q = q
        self.shift = shift   # origin of the wall clock (the property does not depend on it; 0.0 is a value like any other)
        self.mono = 0.0      # quanta
        self.off = 10.0
        self.env = list(env)
        self.first_sleep = True
        self.reads = 0
        self.ovs = []        # overshoot of the first sleep after each recur (0 if it did not sleep)

    def time(self):
        self.reads += 1
        return (self.mono + self.off + self.shift) * self.q

    def take(self, kind):
        if self.env and self.env[0]["a"] == kind:
            return self.env.pop(0)
        return None

    def sleep(self, secs):
        r = secs / self.q
        ov = j = 0
        if self.first_sleep:
            e = self.take("sleep")
            if e:
                ov, j = e["dt"], e["j"]
            self.first_sleep = False
            if self.ovs:
                self.ovs[-1] = ov
        self.mono += r + ov
        self.off -= j


def replay(beh, q, zero_at=0):
    """zero_at = k > 0: the wall clock's origin is placed so that the deadline of cycle k is exactly 0.0"""
    from hio.base import doing
    from hio.help import timing
    n = len(beh["starts"])
    shift = 0
    if zero_at:
        pre0 = next(e for e in beh["env"] if e["a"] == "pre")
        shift = -(10 + pre0["dt"] - pre0["j"] + zero_at * pre0["tock"])
    ft = FakeTime(q, beh["env"], shift)
    old = (doing.time, timing.time)
    doing.time = timing.time = ft
    starts, ends = [], []
    try:
        class D(doing.Doer):
            def recur(self, tyme):
                starts.append(ft.mono)
                ft.first_sleep = True
                ft.ovs.append(0)
                e = ft.take("work")
                if e:
                    ft.mono += e["dt"]
                    ft.off -= e["j"]
                ends.append(ft.mono)
                return len(starts) >= n
        pre = ft.take("pre")
        doist = doing.Doist(real=True, tock=beh["init_tock"] * q, doers=[D()])
        ft.mono += pre["dt"]
        ft.off -= pre["j"]
        doist.tock = pre["tock"] * q
        run_start = ft.mono
        try:
            with core.watchdog():
                doist.do()
            err = None
        except (Exception, core.Hang) as ex:      # observable outcome
            err = type(ex).__name__
    finally:
        doing.time, timing.time = old

    def qn(v):
        return int(v) if float(v).is_integer() else v
    return {"starts": [qn(x) for x in starts], "runStart": qn(run_start), "err": err, "tock": pre["tock"],
            "ends": [qn(x) for x in ends], "ovs": list(ft.ovs)}


def judge(b, real):
    """The property decides, not the model: -> (violation text | None, divergence text | None).
    never early: cycle k starts >= k tocks after the run started (any clock behaviour);
    no drift: when every backward jump during the run is fully detectable (it follows the clock read that began the
    cycle with no time in between: work of duration 0), cycle k starts exactly at max(its deadline, end of the previous
    cycle's work) plus the overshoot of the sleep that preceded it.
    A run that differs from the model's prediction but satisfies both (possible only under hidden backward jumps, where
    the property does not fix the exact start times) is a divergence: recorded, not an alarm."""
    tock, rs, st = real["tock"], real["runStart"], real["starts"]
    if real["err"]:
        return "do() raised %s" % real["err"], None
    if len(st) != len(b["starts"]):
        return "do() ran %d cycles, expected %d" % (len(st), len(b["starts"])), None
    early = [k for k, x in enumerate(st) if x - rs < k * tock]
    if early:
        return ("cycle %d started early: starts %s run start %s tock %s (model starts %s)" %
                (early[0], st, rs, tock, b["starts"])), None
    hidden_jump = any(e["a"] != "pre" and e["j"] > 0 and not (e["a"] == "work" and e["dt"] == 0) for e in b["env"])
    if not hidden_jump:
        for k in range(1, len(st)):
            want = max(rs + k * tock, real["ends"][k - 1]) + real["ovs"][k - 1]
            if st[k] != want:
                return ("drift: cycle %d started at %s, lossless waiting gives %s (starts %s run start %s tock %s, "
                        "work ends %s, overshoots %s)" % (k, st[k], want, st, rs, tock, real["ends"], real["ovs"])), None
    if st != b["starts"]:
        return None, "starts %s differ from the model's %s under backward jumps (never early holds)" % (st, b["starts"])
    return None, None


def replay_case(ctx, case):
    b = case["behaviour"]
    b.setdefault("init_tock", b.get("itock"))
    bad, div = judge(b, replay(b, case.get("q", 0.25), case.get("zero_at", 0)))
    if div:
        print("note:", div)
    return [bad] if bad else []


def run(ctx):
    q = ctx.quick
    consts = {"Tocks": {2, 4}, "Works": {0, 1, 5} if q else {0, 1, 3, 5}, "Overs": {0, 2} if q else {0, 1, 2},
              "Jumps": {0, 3} if q else {0, 1, 3, 6}, "N": 3 if q else 4, "MaxJumps": 2}
    r = ctx.tlc("time", "RealPacing", core.cfg_text(constants=consts, invariants=["NeverEarly", "NoDrift"]))
    for v in r.violated:
        ctx.violation("model violates %s" % v, {"tlc_tail": r.out[-5000:]})
    # behaviours: exhaustive for a smaller environment, simulation for the larger one
    small = {"Tocks": {2, 4}, "Works": {0, 5}, "Overs": {0, 1}, "Jumps": {0, 3}, "N": 3, "MaxJumps": 1}
    g = ctx.tlc("time", "RealPacingGen", core.cfg_text(constants=small, constraints=["Dump"], invariants=["NeverEarly", "NoDrift"]), workers=1)
    behs = g.tagged_json("BH")
    big = {"Tocks": {2, 3, 4}, "Works": {0, 1, 2, 3, 5, 9}, "Overs": {0, 1, 2, 4}, "Jumps": {0, 1, 3, 6, 20}, "N": 6, "MaxJumps": 3}
    s = ctx.tlc("time", "RealPacingGen", core.cfg_text(constants=big, constraints=["Dump"], invariants=["NeverEarly", "NoDrift"]),
                workers=1, simulate="num=%d" % (1500 if q else 40000), depth=100)
    behs += s.tagged_json("BH")
    for rr in (g, s):
        for v in rr.violated:
            ctx.violation("model violates %s" % v, {"tlc_tail": rr.out[-5000:]})
    if len(behs) < 100:
        raise core.MachineryError("too few behaviours: %d" % len(behs))
    divergences = []
    for i, b in enumerate(behs):
        b["init_tock"] = b["itock"]
        qq = SCALES[(i + ctx.seed) % len(SCALES)]
        zero_at = (i % 4) if i % 2 else 0          # half of the runs: the deadline of cycle 1, 3 (or 1..3) is wall clock 0.0
        real = replay(b, qq, zero_at)
        ctx.traces += 1
        jumps = sum(1 for e in b["env"] if e["j"] > 0)
        ctx.case(str(b["env"]), {"env": b["env"], "starts": b["starts"]} if i % 501 == 7 else None)
        bad, div = judge(b, real)
        if bad:
            ctx.violation(bad + (" [wall clock origin: deadline of cycle %d is 0.0]" % zero_at if zero_at else ""),
                          {"behaviour": b, "real": real, "q": qq, "zero_at": zero_at})
        elif div:
            divergences.append(div)
    if divergences:
        ctx.note("%d of %d runs differ from the model's start times without breaking C07 (first: %s)" %
                 (len(divergences), len(behs), divergences[0]))
    return ctx.finish(extra={"model_divergences_not_violations": len(divergences)}, rule="behaviours = clock environments (time before do(), tock change, per-cycle work, first-sleep overshoot, "
                           "backward jumps at the end of work / during the first sleep); distinct by environment script",
                      assumptions=["forward clock jumps excluded as documented; a backward jump smaller than the time that passed "
                                   "since the previous clock read is undetectable in principle and only delays (never hastens) cycles; "
                                   "NoDrift is required only for runs without jumps during the run; clock reads take no time"])
