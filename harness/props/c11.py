"""C11 - closing a TCP endpoint releases every socket it opened.

MC:   specs/tcp/Sockets.tla, plain and TLS: NoOrphan (every open socket is held by the endpoint, so close can release it),
      ClosedIsClosed, ClientSingle over all histories of open / peer connects / serviceConnects (accept, replace,
      handshake ok | in progress | aborted) / removeIx / close / client reopen, connect (ok | in progress | refused) / close.
S->C: histories of the model (all short ones + tlc -simulate) executed on real Server / ServerTls / Client objects whose
      `socket` module is a fake that registers every socket it creates or accepts with a strong reference; after every
      event the set of open sockets must be exactly what the endpoint holds, and empty after close.
"""
import errno

from .. import core, fakesock, tcpadapt

ADDR = {"p1": ("127.0.0.1", 50001), "p2": ("127.0.0.1", 50002)}


class Rig:
    def __init__(self, tls):
        from hio.base import tyming
        from hio.core.tcp import clienting, serving
        self.tls = tls
        self.serving, self.clienting = serving, clienting
        self.mod = fakesock.FakeSocketModule(ha=("127.0.0.1", 56000))
        self.saved = [(serving, "socket", serving.socket), (clienting, "socket", clienting.socket)]
        serving.socket = self.mod
        clienting.socket = self.mod
        self.tymist = tyming.Tymist()
        if tls:
            real_wrap = serving.RemoterTls.wrap
            serving.RemoterTls.wrap = lambda self_: None
            self.saved.append((serving.RemoterTls, "wrap", real_wrap))
            self.srv = serving.ServerTls(host="127.0.0.1", port=56000, tymth=self.tymist.tymen(), context=tcpadapt.ctx(True))
        else:
            self.srv = serving.Server(host="127.0.0.1", port=56000, tymth=self.tymist.tymen())
        self.cli = clienting.Client(host="127.0.0.1", port=56000, tymth=self.tymist.tymen(), reconnectable=True, tymeout=2.0)
        self.conns = []      # accepted-side fakes in creation order

    def restore(self):
        for obj, name, val in reversed(self.saved):
            setattr(obj, name, val)

    def listener(self):
        return self.srv.ss

    def apply(self, e):
        op, a = e["op"], e["a"]
        try:
            with core.watchdog():
                if op == "open":
                    self.srv.reopen()
                elif op == "openfail":
                    self.mod.bind_fail = True
                    if self.srv.reopen():
                        return "reopen() reports success although bind() failed"
                elif op == "peer":
                    # every second time a peer connects again from an address the server still holds a connection for, that
                    # peer had closed its side first and the server has seen the end of the stream (the held connection is cut
                    # off): it is still the server's to close when it is replaced
                    old = getattr(self.srv, "ixes", {}).get(ADDR[a[0]])
                    if old is not None and old.cs is not None:
                        self.again = getattr(self, "again", 0) + 1
                        if self.again % 2 == 1 and not old.cs.closed:
                            old.cs.recvplan = ["eof"]
                            old.receive()
                    f = fakesock.FakeConn(ca=ADDR[a[0]], ha=("127.0.0.1", 56000), tls=self.tls, registry=None)
                    f.peer = a[0]
                    # every second connection has been reset by its peer by the time the server shuts it down: shutdown()
                    # answers ENOTCONN, the descriptor is still the server's to close
                    f.rst = len(self.conns) % 2 == 1
                    self.listener().pending.append(f)
                    self.conns.append(f)
                elif op == "service":
                    for f in self.conns:
                        if not f.closed:
                            out = a[f.peer]
                            self.aborts = getattr(self, "aborts", 0) + 1     # an aborted handshake: reset, TLS EOF or another TLS error
                            f.hsplan = ["ok" if out == "ok" else "block" if out == "block" else
                                        ("fault", ("ECONNRESET", "SSLEOF", "SSLERR")[self.aborts % 3])]
                    # sockets come into being when accepted: register them as the kernel would hand them out
                    for f in list(self.listener().pending):
                        if f not in self.mod.registry:
                            self.mod.registry.append(f)
                    self.srv.serviceConnects()
                    for f in self.conns:
                        f.hsplan = []
                elif op == "remove":
                    self.srv.removeIx(ADDR[a[0]])
                elif op == "close":
                    # connections still waiting in the kernel's accept queue were never accepted: they are the kernel's
                    if self.listener() is not None:
                        for f in self.listener().pending:
                            if f in self.mod.registry:
                                self.mod.registry.remove(f)
                    self.srv.close()
                elif op == "copen":
                    self.cli.reopen()
                elif op == "cconnect":
                    self.mod.next_connect = {"ok": 0, "wait": errno.EINPROGRESS, "refused": errno.ECONNREFUSED}[a[0]]
                    self.cli.tymer.start()               # an ordinary attempt, the retry tymer is not due
                    self.cli.serviceConnect()
                    self.mod.next_connect = None
                elif op == "ctimeout":
                    self.tymist.tick(tock=5.0)          # past the retry tymeout
                    self.mod.next_connect = errno.EINPROGRESS
                    self.cli.serviceConnect()            # still not connected and timed out: reopens
                    self.mod.next_connect = None
                elif op == "cclose":
                    self.cli.close()
        except core.Hang:
            return "did not return"
        except Exception as ex:
            return "%s: %s" % (type(ex).__name__, ex)
        return None

    def held(self):
        """sockets the endpoints reference, by role"""
        out = {}
        if self.srv.ss is not None:
            out["listen"] = self.srv.ss
        for ca, rm in self.srv.ixes.items():
            if rm.cs is not None:
                out["ix:%s" % (ca,)] = rm.cs
        for ca, rm in getattr(self.srv, "cxes", {}).items():
            if rm.cs is not None:
                out["cx:%s" % (ca,)] = rm.cs
        if self.cli.cs is not None:
            out["client"] = self.cli.cs
        return out


def judge_step(rig, e):
    """the property on the real observation, with the model's numbers as the expected values"""
    opened = rig.mod.open_sockets()
    held = rig.held()
    orphans = [s for s in opened if not any(s is x for x in held.values())]
    if orphans:
        return "%d socket(s) still open that the endpoint no longer holds: %s" % (
            len(orphans), ["accepted from %s" % (s.ca,) if isinstance(s, fakesock.FakeConn) and not isinstance(s, fakesock.DualSocket)
                           else "created by socket()" for s in orphans])
    if e["op"] in ("close", "openfail"):
        left = [k for k, s in held.items() if k != "client" and not s.closed]
        if left:
            return "after Server.close() still open: %s" % left
    want = len(e["open"])
    if len(opened) != want:
        return "%d sockets open, the model says %d (held: %s)" % (len(opened), want, sorted(held))
    return None


def replay(tls, h):
    rig = Rig(tls)
    try:
        for k, e in enumerate(h):
            err = rig.apply(e)
            if err:
                return "event %d %s%s raised %s" % (k + 1, e["op"], e["a"], err)
            bad = judge_step(rig, e)
            if bad:
                return "event %d %s%s: %s (history %s)" % (k + 1, e["op"], e["a"], bad, [(x["op"], x["a"]) for x in h[:k + 1]])
    finally:
        rig.restore()
    return None


def consts(tls, maxops, maxsocks=7, peers=("p1", "p2"), client=True):
    return {"Peers": set(peers), "Tls": tls, "MaxSocks": maxsocks, "MaxOps": maxops, "ClientOps": client}


def run(ctx):
    for tls in (False, True):
        r = ctx.tlc("tcp", "Sockets", core.cfg_text(constants=consts(tls, 7 if ctx.quick else 9), view="MCView",
                                                    invariants=["NoOrphan", "ClosedIsClosed", "ClientSingle"]))
        for v in r.violated:
            ctx.violation("the model violates %s" % v, {"tlc": r.out[-4000:]})
        hs = ctx.tlc("tcp", "SocketsGen", core.cfg_text(constants=consts(tls, 4), constraints=["Dump"]), workers=1).tagged_json("BH")
        # one peer address, every server history of 7 (quick) / 8 events: reconnects from the same address while the older
        # connection is still held, in every handshake state, then close / reopen
        hs += ctx.tlc("tcp", "SocketsGen", core.cfg_text(constants=consts(tls, 7 if ctx.quick else 8, 10, peers=("p1",), client=False), constraints=["Dump"]),
                      workers=1).tagged_json("BH")
        nex = len(hs)
        nsim, dep = (150, 10) if ctx.quick else (4000, 16)
        hs += ctx.tlc("tcp", "SocketsGen", core.cfg_text(constants=consts(tls, dep, 14), constraints=["Dump"]),
                      workers=1, simulate="num=%d" % nsim, depth=dep + 2).tagged_json("BH")
        if nex < 200 or len(hs) - nex < nsim:
            raise core.MachineryError("history dump too small: %d + %d" % (nex, len(hs) - nex))
        for i, h in enumerate(hs):
            ctx.case((tls, tuple((e["op"], str(e["a"])) for e in h)),
                     {"tls": tls, "history": [(e["op"], e["a"]) for e in h]} if i == nex + 4 else None)
            bad = replay(tls, h)
            if bad:
                ctx.violation("%s: %s" % ("ServerTls" if tls else "Server", bad), {"tls": tls, "history": h})
    ctx.exhaustive = True
    return ctx.finish(rule="one case per (plain | TLS, history); histories: all of length 4 + simulated ones of length 10/16 over two "
                           "peer addresses (reconnects from the same address replace the held connection)",
                      assumptions=["sockets are fakes handed out by a stand-in for the socket module that keeps a strong reference to "
                                   "each one, so a leak cannot be hidden by garbage collection; connections that are still in the "
                                   "kernel's accept queue when the server closes belong to the kernel, not to the server"])


def replay_case(ctx, case):
    bad = replay(case["tls"], case["history"])
    return [bad] if bad else []
