"""C05 - run termination and done flags are exact."""
from .. import sched
from . import c03


def plan(ctx):
    q = ctx.quick
    exh = [("flat3-lim%d" % L, sched.mk(sched.FLAT3, Tocks=[0, 3], MaxSteps=3, Limit=L, Tock=2, T0=1, Rets=["T", "F", "N"],
                                        EnterOuts=["ok", "r"])) for L in ([0, 3, 5] if q else [0, 1, 2, 3, 4, 5, 7])]
    exh.append(("nest-lim3", sched.mk(sched.NEST, Tocks=[0, 2], MaxSteps=2, Limit=3, Rets=["T", "N"], EnterOuts=["ok", "r"])))
    exh.append(("always", sched.mk(["a", ["G", "b"]], always={"G": True}, Tocks=[0, 1], MaxSteps=3, Limit=4, Rets=["T", "F"])))
    exh.append(("fault", sched.mk(sched.NEST, Tocks=[0], MaxSteps=2, Limit=3, Faults=["x", "k"], MaxFaults=1, Rets=["T", "F"])))
    # doers added while running (Doist.extend, a DoDoer's extend): their done flags follow the same rules
    exh.append(("ext-lim", sched.mk(["a", "b"], extra=["x"], Tocks=[0, 3], MaxSteps=3, Limit=3, Tock=2, MaxOps=1, Rets=["T", "F", "N"],
                                    ext={"R": [["x"]]})))
    exh.append(("dd-ext-lim", sched.mk([["G", "a"], "b"], extra=["x"], always={"G": True}, Tocks=[0, 3], MaxSteps=3, Limit=3, Tock=2, MaxOps=1,
                                       Rets=["T", "N"], ext={"G": [["x"]]})))
    mc = [("nest-mc", sched.mk(sched.NEST, Tocks=[0, 1, 3], MaxSteps=4, Limit=5, Tock=2, Rets=["T", "F", "N"], EnterOuts=["ok", "r"]))]
    sim = [("big", c03.plan(ctx)["sim"][0][1], 500 if q else 60000)]
    return dict(mc=mc, exh=exh, sim=sim)


def run(ctx):
    sched.run_family(ctx, "C05", ["TypeOK", "EndExact", "DoneExact"], **plan(ctx))
    return ctx.finish(rule=c03.RULE + "; C05 compares doist.done, final tyme, how the run ended and every doer.done", assumptions=[
        "limit=0 means no limit; a Doer with generator recur that returns None holds done None (the value it returned); "
        "DoDoer(always=True) is excluded from 'never True unless it returned a truthy value'"])
