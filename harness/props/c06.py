"""C06 - runtime extend/remove take effect exactly and preserve membership."""
from .. import sched
from . import c01


def plan(ctx):
    q = ctx.quick
    ext = {"R": [["x", "y"], ["x", "x"], ["a", "x"]]} if q else {"R": [["x"], ["x", "y"], ["x", "x"], ["a", "x"], ["b"]]}
    rem = {"R": [["c", "a"], ["a", "a"], ["x"]]} if q else {"R": [["a"], ["b"], ["c", "a"], ["a", "a"], ["x"], ["b", "c"]]}
    exh = [("flat-ops2", sched.mk(sched.FLAT3, extra=["x", "y"], Tocks=[0], MaxSteps=2 if q else 3, Limit=3, MaxOps=2, Rets=["T"], ext=ext, rem=rem)),
           ("flat-ops-tock", sched.mk(["a", "b"], extra=["x"], Tocks=[0, 2], MaxSteps=3, Limit=4, MaxOps=1, ext={"R": [["x"]]},
                                      rem={"R": [["b"], ["a"]]})),
           ("dd-always", sched.mk([["G", "a", "b"], "c"], extra=["x", "y"], always={"G": True}, Tocks=[0], MaxSteps=2 if q else 3, Limit=3, MaxOps=2,
                                  ext={"G": [["x", "y"], ["a", "x", "x"]]}, rem={"G": [["b", "a"], ["x"], ["b", "b"]]})),
           ("dd-ext-fault", sched.mk([["G", "a", "b"], "c"], extra=["x", "y"], always={"G": True}, Tocks=[0], MaxSteps=2, Limit=3,
                                     MaxOps=1, EnterOuts=["ok", "x"], MaxFaults=1, ext={"G": [["x", "y"]]})),
           ("dd-remove-mid", sched.mk([["G", "b", "c", "e"], "d"], Tocks=[0], MaxSteps=3, Limit=3, MaxOps=1,
                                      rem={"G": [["b", "e"], ["e", "b"], ["e", "c", "b"]]})),
           # an idle DoDoer(always=True) is a RUNNING doer whose .done is True: removing it must close it like any other
           ("dd-idle-removed", sched.mk([["G", "a"], "c"], extra=["x"], always={"G": True}, Tocks=[0], MaxSteps=3, Limit=4, MaxOps=2,
                                        Rets=["T"], ext={"G": [["x"]]}, rem={"R": [["G"], ["G", "c"]], "G": [["a"]]})),
           ("enter-outs", sched.mk(["a", "b"], extra=["x", "y"], Tocks=[0], MaxSteps=3, Limit=3, MaxOps=1, EnterOuts=["ok", "x", "r"],
                                   MaxFaults=1, ext={"R": [["x", "y"]]}, rem={"R": []}))]
    mc = [("nest-ops", sched.mk(sched.NEST, extra=["x", "y", "z"], Tocks=[0, 2], MaxSteps=3, Limit=3 if q else 4, MaxOps=2,
                                ext={"R": [["x", "y"], ["a", "x"]], "G": [["b", "z", "z"]]} if q else
                                {"R": [["x"], ["x", "y"], ["a", "x"]], "G": [["z"], ["b", "z", "z"]]},
                                rem={"R": [["d", "a"], ["G"], ["x"]], "G": [["c", "b"], ["z"]]} if q else
                                {"R": [["a"], ["d", "a"], ["G"], ["x"]], "G": [["b"], ["c", "b"], ["z"]]}))]
    sim = [("big", c01.plan(ctx)["sim"][0][1], 800 if q else 90000)]
    return dict(mc=mc, exh=exh, sim=sim)


def run(ctx):
    sched.run_family(ctx, "C06", ["TypeOK", "OpsExact", "LifeOK"], **plan(ctx))
    return ctx.finish(rule=c01.RULE + "; C06 compares the membership list after every extend/remove call, the events inside "
                      "the call, all events of added/removed doers, and the membership lists at the end", assumptions=[
        "callers pass doers to their own scheduler's extend/remove; a removed doer is not re-added"])
