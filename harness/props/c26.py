"""C26 - Base64 integer and code conversions are exact inverses.

MC:   B64.tla. The sequence-level specification (digits / sextets / octets / one bit string) satisfies the inverse laws
      IntInverse, CodeInverse, NabKeepsLeadingBits, and the arithmetic the code performs (div/mod loop, shifts by
      2*(l % 4), ceil(l*3/4)) computes it (ArithIsSpec) for every input in the bound.
S->C: for every input of the domain TLC prints the expected result of every conversion; the real functions
      intToB64/intToB64b/b64ToInt/codeB64ToB2/codeB2ToB64/nabSextets are called and compared.
C->S: calls of the real functions on long random inputs (up to 24 sextets, values far beyond 2^31) recorded as digit
      lists and validated in batch by B64Trace.tla, which has no machine integers.
"""
import random

from .. import core

ALPHA = "ABCDEFGHIJKLMNOPQRSTUVWXYZabcdefghijklmnopqrstuvwxyz0123456789-_"   # the harness's own table (RFC 4648 url-safe)
IDX = {c: i for i, c in enumerate(ALPHA)}


def chars(sx):
    return "".join(ALPHA[x] for x in sx)


def sext(txt):
    if isinstance(txt, (bytes, bytearray)):
        txt = txt.decode()
    return [IDX[c] for c in txt]


def val(sx):
    v = 0
    for x in sx:
        v = v * 64 + x
    return v


def digits(v):
    d = []
    while True:
        d.append(v % 64)
        v //= 64
        if not v:
            break
    return d[::-1]


def call(f, *a):
    try:
        return f(*a)
    except Exception as ex:
        return "raised %s: %s" % (type(ex).__name__, ex)


def run(ctx):
    from hio.help import helping as H
    ls = [1, 2, 3, 5]
    inv = ["ArithIsSpec", "IntInverse", "CodeInverse", "NabKeepsLeadingBits"]
    gen = {"MCB64.tla": "---- MODULE MCB64 ----\nEXTENDS B64\nAllSx == 0..63\n====\n",
           "MCB64Gen.tla": "---- MODULE MCB64Gen ----\nEXTENDS B64Gen\nAllSx == 0..63\n====\n"}
    # 1. MC: full alphabet (length 2 quick / 3 thorough) + boundary alphabet up to 5 sextets (6 thorough)
    runs = [("MCB64", {"Sx": "<-AllSx", "MaxLen": 2 if ctx.quick else 3, "Ls": set(ls)}),
            ("B64", {"Sx": {0, 1, 31, 32, 62, 63} if ctx.quick else {0, 1, 2, 31, 32, 33, 62, 63},
                     "MaxLen": 5 if ctx.quick else 6, "Ls": set(ls)})]
    for mod, consts in runs:
        r = ctx.tlc("misc", mod, core.cfg_text(constants=consts, invariants=inv), gen=gen)
        for v in r.violated:
            ctx.violation("the model violates %s" % v, {"tlc": r.out[-4000:]})
    ctx.exhaustive = True
    # 2. S->C
    gruns = [("MCB64Gen", {"Sx": "<-AllSx", "MaxLen": 2, "Ls": set(ls)}),
             ("B64Gen", {"Sx": {0, 1, 31, 62, 63}, "MaxLen": 4 if ctx.quick else 6, "Ls": set(ls)})]
    nvec = 0
    for mod, consts in gruns:
        g = ctx.tlc("misc", mod, core.cfg_text(constants=consts, constraints=["Emit"]), gen=gen, workers=1)
        for v in g.tagged_json("VEC"):
            nvec += 1
            s = v["s"]
            n = val(s)
            c = chars(s)
            ctx.case(c)
            bad = []
            for l, exp in v["int"].items():
                got = call(H.intToB64, n, int(l))
                if got != chars(exp):
                    bad.append("intToB64(%d, %s) = %r, specification says %r" % (n, l, got, chars(exp)))
                gotb = call(H.intToB64b, n, int(l))
                if gotb != chars(exp).encode():
                    bad.append("intToB64b(%d, %s) = %r, specification says %r" % (n, l, gotb, chars(exp).encode()))
                back = call(H.b64ToInt, got) if isinstance(got, str) and got else None
                if back != n:
                    bad.append("b64ToInt(intToB64(%d, %s)) = %r" % (n, l, back))
            for arg in (c, c.encode()):
                if call(H.b64ToInt, arg) != val(v["canon"]):
                    bad.append("b64ToInt(%r) = %r, specification says %d" % (arg, call(H.b64ToInt, arg), val(v["canon"])))
                b2 = call(H.codeB64ToB2, arg)
                if b2 != bytes(v["b2"]):
                    bad.append("codeB64ToB2(%r) = %r, specification says %r" % (arg, b2, bytes(v["b2"])))
            b = bytes(v["b2"])
            for i, (bk, nb) in enumerate(zip(v["back"], v["nab"])):
                l = i + 1
                for bb in (b, b + b"\xff\x5a"):     # extra trailing octets must not matter
                    got = call(H.codeB2ToB64, bb, l)
                    if got != chars(bk):
                        bad.append("codeB2ToB64(%r, %d) = %r, specification says %r" % (bb, l, got, chars(bk)))
                    got = call(H.nabSextets, bb, l)
                    if got != bytes(nb):
                        bad.append("nabSextets(%r, %d) = %r, specification says %r" % (bb, l, got, bytes(nb)))
            if bad:
                ctx.violation(bad[0], {"kind": "vector", "vector": v, "all": bad[:6]})
    if nvec < 1000:
        raise core.MachineryError("vector dump too small: %d" % nvec)
    # 3. C->S: long inputs, recorded as digit lists
    rng = random.Random(ctx.seed)
    ntr, per = (60, 40) if ctx.quick else (600, 60)
    traces = []
    for _ in range(ntr):
        tr = []
        for _ in range(per):
            op = rng.choice(["intToB64", "b64ToInt", "codeB64ToB2", "codeB2ToB64", "nabSextets"])
            k = rng.choice([1, 2, 3, 4, 5, 6, 7, 8, 11, 16, 24])
            sx = [rng.choice([0, 63, rng.randrange(64)]) for _ in range(k)]
            try:
                if op == "intToB64":
                    l = rng.choice([1, 2, 4, k, k + 3])
                    e = {"op": op, "d": sx, "l": l, "out": sext(H.intToB64(val(sx), l))}
                elif op == "b64ToInt":
                    e = {"op": op, "c": sx, "out": digits(H.b64ToInt(chars(sx)))}
                elif op == "codeB64ToB2":
                    e = {"op": op, "c": sx, "out": list(H.codeB64ToB2(chars(sx)))}
                else:
                    b = [rng.choice([0, 255, rng.randrange(256)]) for _ in range((k * 3 + 3) // 4 + rng.randrange(3))]
                    if op == "codeB2ToB64":
                        e = {"op": op, "b": b, "l": k, "out": sext(H.codeB2ToB64(bytes(b), k))}
                    else:
                        e = {"op": op, "b": b, "l": k, "out": list(H.nabSextets(bytes(b), k))}
            except Exception as ex:
                e = {"op": op, "d": sx, "c": sx, "b": sx, "l": k, "out": [-1], "raised": "%s: %s" % (type(ex).__name__, ex)}
            tr.append(e)
        traces.append(tr)
    res = core.validate_traces(ctx, "misc", "B64Trace",
                               core.cfg_text(spec="TSpec", constants={"Sx": {0}, "MaxLen": 0, "Ls": {1}},
                                             constraints=["Progress"]), traces)
    for tr, v in zip(traces, res):
        ctx.traces += 1
        if v["maxl"] != len(tr) + 1:
            k = max(v["maxl"], 1)
            ctx.violation("call of the real function rejected by the specification: %s" % tr[k - 1],
                          {"kind": "trace", "event": tr[k - 1]})
    ctx.samples.append({"trace_head": traces[0][:3]})
    return ctx.finish(rule="S->C: one case per input string of the domain (all conversions, str and bytes arguments, l in "
                           "{1,2,3,5}); C->S: 40/60 calls per trace on inputs of up to 24 sextets",
                      assumptions=["l = 0 is a don't-care (the docstring speaks of a minimum length)",
                                   "the MC of the arithmetic layer is bounded by TLC's 32-bit integers (values < 2^29); larger "
                                   "values are covered by the digit-level specification through recorded calls"])


def replay_case(ctx, case):
    from hio.help import helping as H
    if case.get("kind") == "vector":
        v = case["vector"]
        n, c = val(v["s"]), chars(v["s"])
        bad = []
        for l, exp in v["int"].items():
            if call(H.intToB64, n, int(l)) != chars(exp):
                bad.append("intToB64(%d,%s)" % (n, l))
        if call(H.codeB64ToB2, c) != bytes(v["b2"]):
            bad.append("codeB64ToB2(%r)" % c)
        b = bytes(v["b2"])
        for i, (bk, nb) in enumerate(zip(v["back"], v["nab"])):
            if call(H.codeB2ToB64, b, i + 1) != chars(bk):
                bad.append("codeB2ToB64(%r,%d)" % (b, i + 1))
            if call(H.nabSextets, b, i + 1) != bytes(nb):
                bad.append("nabSextets(%r,%d)" % (b, i + 1))
        return bad
    e = case["event"]
    op = e["op"]
    try:      # call the real function again on the recorded arguments, let the specification judge the new result
        if op == "intToB64":
            e2 = dict(e, out=sext(H.intToB64(val(e["d"]), e["l"])))
        elif op == "b64ToInt":
            e2 = dict(e, out=digits(H.b64ToInt(chars(e["c"]))))
        elif op == "codeB64ToB2":
            e2 = dict(e, out=list(H.codeB64ToB2(chars(e["c"]))))
        elif op == "codeB2ToB64":
            e2 = dict(e, out=sext(H.codeB2ToB64(bytes(e["b"]), e["l"])))
        else:
            e2 = dict(e, out=list(H.nabSextets(bytes(e["b"]), e["l"])))
    except Exception as ex:
        return ["%s raised %r" % (op, ex)]
    res = core.validate_traces(ctx, "misc", "B64Trace",
                               core.cfg_text(spec="TSpec", constants={"Sx": {0}, "MaxLen": 0, "Ls": {1}},
                                             constraints=["Progress"]), [[e2]])
    return [] if res[0]["maxl"] == 2 else ["%s: result %r rejected by the specification" % (op, e2["out"])]
