"""C23 - Durq / Dusq behave as FIFO queue / insertion-ordered set, the durable copy mirrors them, reopen restores them.

MC:   specs/store/Queue.tla for Kind in {durq, dusq}: Mirror (durable copy = cache), IsModel (cache = abstract queue/set),
      NoMismatch, SetUnique, FifoPull, with close/reopen of the store between any two operations.
S->C: operation histories with the expected result, content and durable content after every operation (every history
      up to a small length + tlc -simulate for long ones) executed on a real Durq/Dusq injected by a real Hold backed by a
      real Subery (LMDB) in a scratch directory; reopen = close the Subery, reopen it, inject a fresh object (or the same
      one and sync(force=True)).
"""
import os
import shutil
import tempfile

from .. import core


class Rig:
    """one LMDB environment shared by many histories (each history uses its own key)"""

    def __init__(self, root, n):
        from hio.base import Subery
        self.s = Subery(name="env%d" % n, headDirPath=root, temp=False, reopen=True)
        self.newhold()

    def newhold(self):
        from hio.base.hier import Hold
        self.hold = Hold(_hold_subery=self.s)

    def close(self):
        try:
            self.s.close()
        except Exception:
            pass


def mkval(kind, name):
    from hio.base.hier import Bag, IceBag
    i = int(name[1:])
    if kind == "durq":
        return IceBag(value=i) if i == 3 else Bag(value=i)
    return Bag(value=i) if i == 3 else IceBag(value=i)


def unval(v):
    if v is None:
        return "None"
    if isinstance(v, bool):
        return "T" if v else "F"
    return "v%d" % v.value if hasattr(v, "value") else repr(v)


def execute(kind, h, rig, key):
    """run history h on a real object; returns list of observations (res, q, d) per op"""
    from hio.base.hier import Durq, Dusq
    cls = Durq if kind == "durq" else Dusq
    q = cls()
    oldq = None
    rig.hold[key] = q
    sdbname = "drqs" if kind == "durq" else "dsqs"
    out = []
    for e in h:
        op, a = e["op"], e["a"]
        try:
            with core.watchdog():
                if op == "push":
                    r = q.push(mkval(kind, a))
                elif op == "extend":
                    vs = [mkval(kind, x) for x in a]
                    r = q.extend(vs) if kind == "durq" else q.update(vs)
                elif op == "pull":
                    r = q.pull()
                elif op == "clear":
                    r = q.clear()
                elif op == "remove":
                    r = q.remove(mkval(kind, a))
                elif op == "reopen":
                    rig.s.close()
                    rig.s.reopen()
                    rig.newhold()
                    oldq = q
                    q = cls()
                    rig.hold[key] = q
                    r = "-"
                elif op == "resyncold":
                    rig.s.close()
                    rig.s.reopen()
                    rig.newhold()
                    q, oldq = oldq, None
                    rig.hold[key] = q
                    q.sync(force=True)
                    r = "-"
                elif op == "resync":
                    rig.s.close()
                    rig.s.reopen()
                    rig.newhold()
                    rig.hold[key] = q
                    q.sync(force=True)
                    r = "-"
            res = r if r == "-" else unval(r)
        except core.Hang:
            res = "X:Hang"
        except Exception as ex:
            res = "X:%s: %s" % (type(ex).__name__, str(ex)[:80])
            if not rig.s.opened:
                rig.s.reopen()
        try:
            d = [unval(v) for v in getattr(rig.s, sdbname).get(key)]
        except Exception as ex:
            d = "X:%s" % type(ex).__name__
        out.append({"res": res, "q": [unval(v) for v in q], "d": d})
    return out


def judge(h, real):
    for k, (e, r) in enumerate(zip(h, real)):
        want = {"res": e["res"], "q": list(e["q"]), "d": list(e["d"])}
        if r != want:
            field = [f for f in ("res", "q", "d") if r[f] != want[f]][0]
            name = {"res": "result", "q": "content", "d": "durable copy"}[field]
            return "op %d %s(%s): %s is %r, the model says %r (history %s)" % (
                k + 1, e["op"], e["a"], name, r[field], want[field], [(x["op"], x["a"]) for x in h[:k + 1]])
    return None


def can_val(name):
    return None if name == "None" else int(name[1:])


def can_unval(v):
    return "None" if v is None else "v%d" % v


def can_execute(h, rig, prefix):
    """Can.tla history on real Can objects held by a real Hold over a real Subery; observations per op"""
    from hio.base.hier import Can
    keys = sorted(h[0]["mem"])
    objs = {k: Can() for k in keys}
    inhold = set()
    out = []
    for e in h:
        op, k, a = e["op"], e["k"], e["a"]
        try:
            with core.watchdog():
                r = "-"
                if op == "set":
                    objs[k].value = can_val(a)
                elif op == "update":
                    objs[k]._update(value=can_val(a))
                elif op == "sync":
                    r = "T" if objs[k]._sync(force=(a == "force")) else "F"
                elif op == "pin":
                    r = "T" if objs[k]._pin() else "F"
                elif op == "inject":
                    rig.hold[prefix + k] = objs[k]
                    inhold.add(k)
                elif op == "swap":
                    objs[k] = Can()
                    rig.hold[prefix + k] = objs[k]
                elif op == "close":
                    rig.s.close()
                elif op == "open":
                    rig.s.reopen()
                    rig.newhold()
                    for kk in sorted(inhold):
                        if kk in a:
                            objs[kk] = Can()
                        rig.hold[prefix + kk] = objs[kk]
            res = r
        except core.Hang:
            res = "X:Hang"
        except Exception as ex:
            res = "X:%s: %s" % (type(ex).__name__, str(ex)[:80])
        obs = {"res": res, "mem": {kk: can_unval(objs[kk].value) for kk in keys},
               "stale": {kk: bool(objs[kk]._stale) for kk in keys}}
        if rig.s.opened:    # the durable copy can only be read while the environment is open
            try:
                obs["dur"] = {}
                for kk in keys:
                    c = rig.s.cans.get(prefix + kk)
                    obs["dur"][kk] = "absent" if c is None else can_unval(c.value)
            except Exception as ex:
                obs["dur"] = "X:%s" % type(ex).__name__
        out.append(obs)
    if not rig.s.opened:
        rig.s.reopen()
        rig.newhold()
    return out


def can_judge(h, real):
    for n, (e, r) in enumerate(zip(h, real)):
        for f, name in (("res", "result"), ("mem", "object values"), ("stale", "_stale flags"), ("dur", "durable copies")):
            if f in r and r[f] != e[f]:
                return "op %d %s(%s, %s): %s are %r, the model says %r (history %s)" % (
                    n + 1, e["op"], e["k"], e["a"], name, r[f], e[f], [(x["op"], x["k"], x["a"]) for x in h[:n + 1]])
    return None


def run_can(ctx, root):
    """beyond the listed property: the third durable kind (Can) - same discipline, own spec (specs/store/Can.tla).
    A difference between the real Can and the model is reported as a divergence, never as a C23 violation."""
    keys = {"k1", "k2"}
    r = ctx.tlc("store", "Can", core.cfg_text(
        constants={"Keys": keys, "Vals": {"v1", "v2"}, "MaxOps": 6 if ctx.quick else 8},
        invariants=["TypeOK", "Mirror", "DurableSynced", "NoPhantom"],
        properties=["Isolated", "CopyFromObject", "Survive"], view="MCView"))
    for v in r.violated:
        ctx.divergence("the Can model violates %s" % v)
    g = ctx.tlc("store", "CanGen", core.cfg_text(constants={"Keys": keys, "Vals": {"v1"}, "MaxOps": 3},
                                                 constraints=["Dump"]), workers=1)
    hs = g.tagged_json("BH")
    nex = len(hs)
    nsim, dep = (120, 9) if ctx.quick else (3000, 14)
    g = ctx.tlc("store", "CanGen", core.cfg_text(constants={"Keys": keys, "Vals": {"v1", "v2"}, "MaxOps": dep},
                                                 constraints=["Dump"]), workers=1, simulate="num=%d" % nsim, depth=dep + 2)
    hs += g.tagged_json("BH")
    if nex < 500 or len(hs) - nex < nsim // 2:
        raise core.MachineryError("Can history dump too small: %d exhaustive, %d simulated" % (nex, len(hs) - nex))
    rig, nbad = None, 0
    for i, h in enumerate(hs):
        if i % 400 == 0:
            if rig:
                rig.close()
            rig = Rig(root, 1000 + i // 400)
        real = can_execute(h, rig, "c%d." % i)
        bad = can_judge(h, real)
        if bad:
            nbad += 1
            ctx.divergence("Can (beyond C23): " + bad)
    if rig:
        rig.close()
    ctx.note("Can.tla (beyond the property): %d histories (%d exhaustive of length 3, rest simulated of length %d) replayed on "
             "real Can objects in a real Hold/Subery: %d differ" % (len(hs), nex, dep, nbad))


def run(ctx):
    root = core.scratch_dir("hioverif_c23_")
    inv = ["Mirror", "IsModel", "NoMismatch", "SetUnique"]
    try:
        nrig = 0
        for kind in ("durq", "dusq"):
            vals3 = {"v1", "v2", "v3"}
            r = ctx.tlc("store", "Queue", core.cfg_text(
                constants={"Kind": '"%s"' % kind, "Vals": vals3, "MaxLen": 4, "MaxOps": 5 if ctx.quick else 7},
                invariants=inv, properties=["FifoPull"], view="MCView"))
            for v in r.violated:
                ctx.violation("the %s model violates %s" % (kind, v), {"tlc": r.out[-4000:]})
            hs = []
            g = ctx.tlc("store", "QueueGen", core.cfg_text(
                constants={"Kind": '"%s"' % kind, "Vals": {"v1", "v2"}, "MaxLen": 4, "MaxOps": 3},
                constraints=["Dump"]), workers=1)
            hs += g.tagged_json("BH")
            nex = len(hs)
            nsim, dep = (250, 9) if ctx.quick else (8000, 14)   # every successor of the last state is printed: ~18 histories per simulated run
            g = ctx.tlc("store", "QueueGen", core.cfg_text(
                constants={"Kind": '"%s"' % kind, "Vals": vals3, "MaxLen": 5, "MaxOps": dep},
                constraints=["Dump"]), workers=1, simulate="num=%d" % nsim, depth=dep + 2)
            hs += g.tagged_json("BH")
            if nex < 500 or len(hs) - nex < nsim:
                raise core.MachineryError("history dump too small: %d exhaustive, %d simulated" % (nex, len(hs) - nex))
            rig = None
            for i, h in enumerate(hs):
                if i % 300 == 0:
                    if rig:
                        rig.close()
                    nrig += 1
                    rig = Rig(root, nrig)
                key = "q%d" % i
                real = execute(kind, h, rig, key)
                ctx.case((kind, tuple((e["op"], str(e["a"])) for e in h)),
                         {"kind": kind, "history": [(e["op"], e["a"], e["res"]) for e in h]} if i in (5, nex + 5) else None)
                bad = judge(h, real)
                if bad:
                    ctx.violation("%s: %s" % (kind, bad), {"kind": kind, "history": h, "real": real})
            if rig:
                rig.close()
        run_can(ctx, root)
        ctx.exhaustive = True
    finally:
        shutil.rmtree(root, True)
    return ctx.finish(rule="one case per (kind, operation history); histories: every one of length 3 over 2 values (push, "
                           "extend/update of <=2 values, pull, clear, remove, reopen, resync) + simulated ones of length 9/14 "
                           "over 3 values; compared after every op: result, list(q), sdb.get(key)",
                      assumptions=["values are Bag/IceBag(value=i) instances; a crash is modelled as losing the in-memory object "
                                   "with the LMDB environment closed cleanly (LMDB's own crash consistency is trusted)"])


def replay_case(ctx, case):
    root = core.scratch_dir("hioverif_c23_")
    try:
        rig = Rig(root, 0)
        real = execute(case["kind"], case["history"], rig, "q0")
        rig.close()
        bad = judge(case["history"], real)
        return [bad] if bad else []
    finally:
        shutil.rmtree(root, True)
