"""C22 - memo receivers survive arbitrary datagrams and deliver only authentic memos.

MC:   specs/memo/RxGuard.tla: allowed outcomes of servicing per datagram class (intact | altered) with and without
      required signatures: NeverRaised, AuthenticOnly.
C->S: real receiving Memoers (signatures required: AuthMemoer; not required: Memoer) are serviced on every truncation
      and, at every byte position, several byte values (non-base64, non-UTF-8, neighbouring characters) of real signed
      and unsigned, base64 and binary, zeroth and non-zeroth grams, on header field substitutions (unknown code, gram
      number beyond the count, changed count, foreign signer id, signature of another gram) and on random bytes, each
      followed by the intact remaining grams of the memo.  Every execution is recorded as (class, outcome) events and
      validated in batch by RxGuardTrace.tla: an outcome "raised", an intact gram that is refused, or - when signatures
      are required - a delivered memo that is not exactly the signed one, is rejected.
"""
import itertools
import random

from .. import core
from . import c20

MEMO = "mémo ☃ " + "0123456789" * 3


def grams_for(code, auth, curt, signer="B"):
    """-> (memo, its three grams as rent by a real sender)"""
    for rep in (1, 2, 3, 4, 6):
        memo = MEMO * rep
        for size in range(c20.mk(code, auth, curt, size=1, signer=signer).size, 700):
            tx = c20.mk(code, auth, curt, size=size, signer=signer)
            try:
                g = tx.rend(memo, c20.keys(signer)["vid"] if auth else None)
            except Exception:
                continue
            if len(g) == 3:
                return memo, [bytes(x) for x in g]
    raise core.MachineryError("cannot rend the memo into 3 grams for %s curt=%s" % (code, curt))


def feed(rx, datagrams, memo=MEMO):
    """-> (outcome of the first datagram, error text)"""
    before_store = sum(len(v) for v in rx.rxgs.values())
    out = "dropped"
    for k, d in enumerate(datagrams):
        rx.echos.append((bytes(d), "src"))
        try:
            with core.watchdog():
                rx.serviceAllRx()
        except core.Hang:
            return "raised", "serviceAllRx() did not return"
        except Exception as ex:
            return "raised", "serviceAllRx() raised %s: %s" % (type(ex).__name__, ex)
        if k == 0:
            if sum(len(v) for v in rx.rxgs.values()) > before_store:
                out = "stored"
    texts = [t for (t, s, v) in rx.inbox]
    if texts:
        out = "delivered-original" if all(t == memo for t in texts) else "delivered-altered"
    return out, None


def mutations(gram, rng, quick):
    n = len(gram)
    step = 3 if quick else 1
    for i in range(0, n, step):                          # truncations
        yield "truncate@%d" % i, gram[:i]
    vals = [0xff, 0x00, ord("!"), None] if quick else [0xff, 0x00, ord("!"), ord("\n"), 0x80, None]
    for i in range(0, n, step):                           # byte substitutions
        for v in vals:
            b = bytearray(gram)
            b[i] = (b[i] ^ 0x01) if v is None else v
            if bytes(b) != gram:
                yield "byte@%d=%s" % (i, "flip" if v is None else hex(v)), bytes(b)
    yield "append", gram + b"\xff"
    yield "double", gram + gram
    yield "empty-body?", gram[:-1]


def substitutions(grams, curt):
    """header field substitutions the format names (base64 headers only: fields are text there)"""
    g0, g1, g2 = grams
    out = []
    if not curt:
        out.append(("unknown-code", b"bZZZ" + g1[4:]))
        out.append(("unknown-code2", b"bAAK" + g1[4:]))
        out.append(("not-b", b"cAAA" + g0[4:]))
        out.append(("gramnum-beyond-count", g1[:4] + b"AAAJ" + g1[8:]))
        out.append(("count-changed", g0[:4] + b"AAAC" + g0[8:]))
        out.append(("count-zero", g0[:4] + b"AAAA" + g0[8:]))
        out.append(("count-huge", g0[:4] + b"____" + g0[8:]))
        out.append(("foreign-mid", g1[:8] + b"0A" + b"x" * 20 + g1[30:]))
        out.append(("bad-b64-in-count", g0[:4] + b"A!A*" + g0[8:]))
    # every code the format defines (zeroth / non-zeroth, signed / unsigned, acks) and undefined neighbours, on every gram
    from hio.help import helping
    for k, g in enumerate(grams):
        for code in ["bAA" + c for c in "ABCDEFGHIJKL"] + ["bAB_", "aAAA"]:
            head = helping.codeB64ToB2(code) if curt else code.encode()
            if g[:len(head)] != head:
                out.append(("code-%s-on-gram-%d" % (code, k), head + g[len(head):]))
                if not curt and k == 1:       # and padded / cut to the length that code expects
                    out.append(("code-%s-short" % code, head + g[len(head):40]))
                    out.append(("code-%s-long" % code, head + g[len(head):] + b"A" * 200))
    out.append(("signature-of-other-gram", g1[:-88] + g2[-88:] if len(g1) > 88 and len(g2) > 88 else g1))
    out.append(("body-of-other-gram", g1[:30] + g2[30:]))
    return out


def run(ctx):
    rng = random.Random(ctx.seed)
    for authic in (False, True):
        r = ctx.tlc("memo", "RxGuard", core.cfg_text(constants={"Authic": authic, "MaxSteps": 3}, invariants=["NeverRaised", "AuthenticOnly"]))
        for v in r.violated:
            ctx.violation("the model violates %s" % v, {"tlc": r.out[-2000:]})
    traces, detail = [], []
    # signer ids of all three kinds (the id is the key / inception key of a rotated identifier / a digest): see c20.keys
    combos = [(code, auth, curt, sg) for (code, auth) in c20.codes() for curt in (False, True)
              for sg in ((("D", "B") if not curt else ("E", "D")) if (auth and ctx.quick) else (c20.SIGNERS if auth else ("B",)))]
    for (code, auth, curt, signer) in combos:
        if True:
            memo, grams = grams_for(code, auth, curt, signer)
            for gi, gram in enumerate(grams):
                rest = [g for j, g in enumerate(grams) if j != gi]
                cases = [("intact", "intact", gram)]
                cases += [("altered", name, data) for name, data in mutations(gram, rng, ctx.quick)]
                if gi == 1:
                    cases += [("altered", name, data) for name, data in substitutions(grams, curt)]
                for cls, name, data in cases:
                    if cls == "altered" and data == gram:
                        continue
                    # order A: the zeroth gram first when it is not the one under test, so that signed grams can be verified;
                    # order B (non-zeroth grams): the gram under test arrives before every other gram of its memo
                    for order in (("A",) if gi == 0 else ("A", "B")):
                        if order == "B" and cls == "intact":
                            continue      # an intact signed gram ahead of its zeroth gram is the listed finding of C20
                        rx = c20.mk(code, auth, signer=signer)
                        seq = [data] + rest
                        if gi != 0 and order == "A":
                            rx.echos.append((rest[0], "src"))
                            rx.serviceAllRx()
                            seq = [data] + rest[1:]
                        out, err = feed(rx, seq, memo)
                        ctx.case((code, curt, gi, name, order, signer))
                        traces.append([{"cls": cls, "out": out}])
                        detail.append({"code": code, "auth": auth, "curt": curt, "gram": gi if order == "A" else -gi, "mutation": name,
                                       "datagram": data.hex(), "err": err, "rest": [x.hex() for x in rest], "memo": memo, "signer": signer})
    # two legitimate signers: one signs her own memo under the memo id of the other's memo.  Every delivered memo must be a
    # (text, signer) pair that was really signed by that signer, in every interleaving
    import pysodium
    from hio.core.memo.memoing import Memoer, Keyage
    seed2 = bytes(range(100, 132))
    vk2, sk2 = pysodium.crypto_sign_seed_keypair(seed2)
    vid2 = Memoer._encodeVID(vk2)
    keep2 = dict(c20.keys()["keep"])
    keep2[vid2] = Keyage(qvk=Memoer._encodeQVK(vk2), qss=Memoer._encodeQSS(seed2))
    for (code, auth) in c20.codes():
        if not auth:
            continue
        for curt in (False, True):
            memo_v, grams_v = grams_for(code, True, curt)
            size = max(len(g) for g in grams_v)
            victim_mid = []
            txa = c20.mk(code, True, curt, size=size)
            txa._keep, txa.vid = keep2, vid2
            # the other signer reuses the memo id seen on the wire
            rxp = c20.mk(code, True)
            mid = rxp.pick(bytearray(grams_v[0]))[0]
            txa.makeMID = lambda mid=mid: mid
            memo_a = ("forged " + memo_v)[:len(memo_v)]
            grams_a = [bytes(g) for g in txa.rend(memo_a, vid2)]
            # ... and a validly signed memo of hers, same memo id again, whose bytes are not UTF-8 (it can never be delivered)

            class Raw:
                def __init__(self, b):
                    self.b = b

                def encode(self):
                    return self.b
            grams_u = [bytes(g) for g in txa.rend(Raw(b"\xff\xfe not text \xc3" + b"\x80" * (len(memo_v.encode()) - 14)), vid2)]
            grams_a_all, grams_u_all = grams_a, grams_u
            pool = [("v", g) for g in grams_v] + [("a", g) for g in grams_a] + [("u", g) for g in grams_u]
            blocks = {"v": [("v", g) for g in grams_v], "a": [("a", g) for g in grams_a], "u": [("u", g) for g in grams_u]}
            structured = [blocks[x] + blocks[y] for x in "vau" for y in "vau" if x != y] + \
                         [blocks[x] + blocks[y] + blocks[z] for x, y, z in itertools.permutations("vau")]
            for k in range((40 if ctx.quick else 1500) + len(structured)):
                if k < len(structured):
                    seq = list(structured[k])
                else:
                    seq = [rng.choice(pool) for _ in range(rng.choice([4, 6, 8]))]
                    if rng.random() < 0.5:
                        seq = [("v", grams_v[0])] + seq
                rx = c20.mk(code, True)
                rx._keep = keep2
                err, pairs = None, []
                try:
                    with core.watchdog():
                        burst = rng.random() < 0.5
                        for who, g in seq:
                            rx.echos.append((g, "src-" + who))
                            if not burst:
                                rx.serviceAllRx()
                        rx.serviceAllRx()
                    pairs = [(t, v) for (t, s_, v) in rx.inbox]
                except core.Hang:
                    err = "serviceAllRx() did not return"
                except Exception as ex:
                    err = "serviceAllRx() raised %s: %s" % (type(ex).__name__, ex)
                genuine = {(memo_v, c20.keys()["vid"]), (memo_a, vid2)}
                out = "raised" if err else ("dropped" if not pairs else
                                            ("delivered-original" if all(p in genuine for p in pairs) else "delivered-altered"))
                gidx = lambda w, g: {"v": grams_v, "a": grams_a, "u": grams_u}[w].index(g)
                ctx.case(("impersonation", code, curt, tuple((w, gidx(w, g)) for w, g in seq)))
                traces.append([{"cls": "altered", "out": out}])
                detail.append({"code": code, "auth": True, "curt": curt, "gram": None,
                               "mutation": "two signers, same memo id: %s -> delivered %s" % (
                                   [(w, gidx(w, g)) for w, g in seq],
                                   [(t[:12], (v or "None")[:6]) for t, v in pairs]),
                               "datagram": "", "err": err, "rest": [], "norerun": True})
    # a signer the receiver has no current key for: a transferable signer id (kinds D, E) that is not in the receiver's keep.
    # The grams are exactly what that signer rent; with required signatures nothing of the memo may be delivered
    for (code, auth) in c20.codes():
        if not auth:
            continue
        for curt in (False, True):
            for signer in ("D", "E"):
                memo, grams = grams_for(code, True, curt, signer)
                for order in ("in-order", "zeroth-last"):
                    rx = c20.mk(code, True, signer="B")         # its keep holds the key of the "B" signer only
                    seq = list(grams) if order == "in-order" else list(grams[1:]) + [grams[0]]
                    out, err = feed(rx, seq, memo)
                    ctx.case((code, curt, "unknown-signer", signer, order))
                    traces.append([{"cls": "unverifiable", "out": out}])
                    detail.append({"code": code, "auth": True, "curt": curt, "gram": 0, "mutation": "signer %s unknown to the receiver, %s" % (signer, order),
                                   "datagram": seq[0].hex(), "err": err, "rest": [x.hex() for x in seq[1:]], "memo": memo, "signer": "B",
                                   "unverifiable": True})
    # random datagrams
    for auth in (False, True):
        code = c20.codes()[2 if auth else 0][0]
        for _ in range(150 if ctx.quick else 5000):
            n = rng.choice([0, 1, 2, 3, 4, 5, 8, 30, 60, 200]) or 1
            data = bytes(rng.randrange(256) for _ in range(n))
            if rng.random() < 0.5:
                data = rng.choice([b"b", b"bAAA", b"bAAC", b"bAAD", b"\x6c\x00\x00", b"\x6c\x00\x02"]) + data
            rx = c20.mk(code, auth)
            out, err = feed(rx, [data])
            ctx.case(("random", auth, data[:40]))
            traces.append([{"cls": "altered", "out": out}])
            detail.append({"code": code, "auth": auth, "curt": None, "gram": None, "mutation": "random", "datagram": data.hex(), "err": err, "rest": []})
    # validate, per signature requirement
    for authic in (False, True):
        idx = [i for i, d in enumerate(detail) if d["auth"] == authic]
        res = core.validate_traces(ctx, "memo", "RxGuardTrace",
                                   core.cfg_text(spec="TSpec", constants={"Authic": authic, "MaxSteps": 10}, constraints=["Progress"],
                                                 invariants=["NeverRaised", "AuthenticOnly"]), [traces[i] for i in idx])
        for i, v in zip(idx, res):
            ctx.traces += 1
            if v["maxl"] != 2:
                d, e = detail[i], traces[i][0]
                what = d["err"] if e["out"] == "raised" else (
                    "an intact gram was %s" % e["out"] if e["cls"] == "intact" else
                    "a memo whose claimed signer has no key at the receiver was delivered" if e["cls"] == "unverifiable" else "a memo with altered content was delivered although signatures are required")
                ctx.violation("%s gram %s of code %s (%s headers), %s: %s" % (
                    "signed" if d["auth"] else "unsigned", d["gram"], d["code"], "binary" if d["curt"] else "base64", d["mutation"], what),
                    {"detail": d})
    ctx.samples.append({"datagram": detail[40]["mutation"], "hex": detail[40]["datagram"][:80], "outcome": traces[40]})
    return ctx.finish(level="model_checking",
                      rule="one case per (zeroth-gram code, header encoding, gram 0|1|2 of a 3-gram memo, truncation | byte substitution | "
                           "header field substitution) and per random datagram; each followed by the intact other grams of the memo",
                      assumptions=["an altered unsigned gram whose body still decodes cannot be told from a genuine one: without required "
                                   "signatures a delivered memo with altered content is not a violation"])


def replay_case(ctx, case):
    d = case["detail"]
    if d.get("norerun"):
        print("this case is a random interleaving of two signers' grams: rerun the check")
        return ["(rerun the check)"] if False else []
    rx = c20.mk(d["code"], d["auth"], signer=d.get("signer", "B"))
    seq = [bytes.fromhex(d["datagram"])] + [bytes.fromhex(x) for x in d["rest"]]
    if d["gram"] and d["gram"] > 0:
        rx.echos.append((seq[1], "src"))
        rx.serviceAllRx()
        seq = [seq[0]] + seq[2:]
    out, err = feed(rx, seq, d.get("memo", MEMO))
    if err:
        return [err]
    if d["auth"] and out == "delivered-altered":
        return ["altered memo delivered"]
    if d.get("unverifiable") and out.startswith("delivered"):
        return ["a memo whose claimed signer has no key at the receiver was delivered"]
    return []
