"""C29 - a Filer creates and deletes only inside its head directory; close(clear) removes what it created.

MC:   specs/misc/FilerPath.tla: path algebra (normalisation of head/tail/base/name with "." and ".." segments, the
      extension rule) and the filesystem effects of Open / Close(clear) for all 32 flag combinations x bases x names
      within the bounds; invariants Contained, ClearRemovesOwn, NothingOnRefusal.
S->C: every configuration of the model is executed with a real Filer in a scratch sandbox.  All filesystem
      mutations go through a guard that refuses (and records) anything outside the sandbox BEFORE it happens.
      Compared: refusal (FilerError) exactly when the model says the path leaves the head directory, .path, every
      created / deleted path inside the head (temp: inside the mkdtemp root), state after close(clear).
"""
import os
import shutil
import tempfile

from .. import core

HEAD = ["p", "q", "r", "head"]
TEMPHEAD = ["p", "q", "r", "tmp"]


class Guard:
    """refuses and records filesystem mutations outside `root`; logs mkdtemp results"""

    NAMES = [("os", "makedirs"), ("os", "mkdir"), ("os", "remove"), ("os", "unlink"), ("os", "rmdir"), ("os", "chmod"),
             ("os", "rename"), ("os", "replace"), ("shutil", "rmtree")]

    def __init__(self, root):
        self.root = os.path.realpath(root)
        self.refused = []
        self.temps = []
        self.saved = []

    def ok(self, p):
        rp = os.path.realpath(os.path.abspath(os.fspath(p)))
        return rp == self.root or rp.startswith(self.root + os.sep)

    def wrap(self, modname, fname, orig):
        def f(p, *a, **k):
            if k.get("dir_fd") is not None:       # shutil.rmtree works relative to directory descriptors
                full = os.path.join(os.readlink("/proc/self/fd/%d" % k["dir_fd"]), os.fspath(p))
            else:
                full = p
            if not self.ok(full):
                self.refused.append("%s.%s(%s)" % (modname, fname, p))
                raise PermissionError("verification guard: %s.%s outside the sandbox: %s" % (modname, fname, p))
            return orig(p, *a, **k)
        return f

    def __enter__(self):
        mods = {"os": os, "shutil": shutil}
        for m, n in self.NAMES:
            orig = getattr(mods[m], n)
            self.saved.append((mods[m], n, orig))
            setattr(mods[m], n, self.wrap(m, n, orig))
        orig_open = os.open
        self.saved.append((os, "open", orig_open))

        def gopen(p, flags, *a, **k):
            if flags & (os.O_WRONLY | os.O_RDWR | os.O_CREAT | os.O_TRUNC | os.O_APPEND) and not self.ok(p):
                self.refused.append("os.open(%s)" % p)
                raise PermissionError("verification guard: os.open for writing outside the sandbox: %s" % p)
            return orig_open(p, flags, *a, **k)
        os.open = gopen
        orig_mkdtemp = tempfile.mkdtemp
        self.saved.append((tempfile, "mkdtemp", orig_mkdtemp))

        def gmkdtemp(suffix=None, prefix=None, dir=None):
            if dir is None or not self.ok(dir):
                self.refused.append("tempfile.mkdtemp(dir=%s)" % dir)
                raise PermissionError("verification guard: mkdtemp outside the sandbox: %s" % dir)
            d = orig_mkdtemp(suffix=suffix, prefix=prefix, dir=dir)
            self.temps.append(d)
            return d
        tempfile.mkdtemp = gmkdtemp
        return self

    def __exit__(self, *a):
        for mod, n, orig in reversed(self.saved):
            setattr(mod, n, orig)
        self.saved = []
        return False


def snapshot(root):
    out = set()
    for d, dirs, files in os.walk(root):
        for x in dirs + files:
            out.add(os.path.relpath(os.path.join(d, x), root))
    return out


def inside(p, d):
    return p == d or p.startswith(d + os.sep)


def execute(sandbox, c):
    """run one configuration on a real Filer in a fresh sandbox tree -> observation dict"""
    from hio.base import filing
    from hio import hioing
    for x in os.listdir(sandbox):
        shutil.rmtree(os.path.join(sandbox, x), True)
    head = os.path.join(sandbox, *HEAD)
    temphead = os.path.join(sandbox, *TEMPHEAD)
    os.makedirs(head)
    os.makedirs(temphead)
    obs = {"raised": None, "path": None, "created": [], "deleted": [], "refused": [], "temproot": None}
    saved = (filing.Filer.TempHeadDir, filing.Filer.AltHeadDirPath)
    filing.Filer.TempHeadDir = temphead
    filing.Filer.AltHeadDirPath = os.path.join(sandbox, "p", "q", "r", "alt")
    before = snapshot(sandbox)
    try:
        with Guard(sandbox) as g:
            f = None
            try:
                with core.watchdog():
                    f = filing.Filer(name=os.path.join(*c["name"]), base=os.path.join(*c["base"]) if c["base"] else "",
                                     temp=c["temp"], headDirPath=head, clean=c["clean"], filed=c["filed"],
                                     extensioned=c["ext"], reopen=True)
            except hioing.FilerError as ex:
                obs["raised"] = "FilerError"
            except core.Hang:
                obs["raised"] = "Hang"
            except Exception as ex:
                obs["raised"] = "%s: %s" % (type(ex).__name__, ex)
            opened = snapshot(sandbox)
            obs["created"] = sorted(opened - before)
            obs["temproot"] = os.path.relpath(g.temps[0], sandbox) if g.temps else None
            if f is not None:
                obs["path"] = os.path.relpath(f.path, sandbox) if g.ok(f.path) else "OUTSIDE:" + f.path
                try:
                    with core.watchdog():
                        f.close(clear=c["clear"])
                except Exception as ex:
                    obs["close_raised"] = "%s: %s" % (type(ex).__name__, ex)
                closed = snapshot(sandbox)
                obs["deleted"] = sorted(opened - closed)
                obs["left"] = sorted(closed - before)
                obs["path_exists_after"] = os.path.lexists(f.path)
            else:
                obs["left"] = sorted(opened - before)
            obs["refused"] = list(g.refused)
    finally:
        filing.Filer.TempHeadDir, filing.Filer.AltHeadDirPath = saved
    return obs


def judge(m, o):
    """m: model record (cfg, err, path, escapes, pathIsHead); o: real observation -> violation text or None"""
    c = m["cfg"]
    if o["refused"]:
        return "tried to touch the filesystem outside the sandbox: %s" % o["refused"][:3]
    headrel = o["temproot"] if c["temp"] else os.path.join(*HEAD)
    if m["pathIsHead"]:      # the path is the head directory itself: don't-care, beyond staying inside it
        out = [p for p in o["created"] + o["deleted"] if headrel is not None and not inside(p, headrel)]
        return "created or deleted outside the head directory %s: %s" % (headrel, out[:4]) if out else None
    if m["escapes"]:
        if o["raised"] != "FilerError":
            outside = [p for p in o["created"] if headrel is None or not inside(p, headrel)]
            return "the path leaves the head directory but the Filer %s; created outside the head: %s" % (
                "raised " + o["raised"] if o["raised"] else "opened " + str(o["path"]), outside[:4])
        if o["left"]:
            return "refused the path but left %s behind" % o["left"][:4]
        return None
    if o["raised"]:
        return "a path inside the head directory was refused/raised: %s" % o["raised"]
    if headrel is None:
        return "temp resource made no temporary root"
    want = os.path.join(headrel, *m["path"][len(TEMPHEAD) + 1:]) if c["temp"] else os.path.join(*m["path"])
    if os.path.normpath(o["path"]) != os.path.normpath(want):
        return ".path is %s, the path algebra says %s" % (o["path"], want)
    out = [p for p in o["created"] + o["deleted"] if not inside(p, headrel)]
    if out:
        return "created or deleted outside the head directory %s: %s" % (headrel, out[:4])
    if o.get("close_raised"):
        return "close(clear=%s) raised %s" % (c["clear"], o["close_raised"])
    if c["clear"] and not m["pathIsHead"]:
        if o["path_exists_after"]:
            return "close(clear=True) left .path %s in place" % o["path"]
        if c["temp"]:
            rest = [p for p in o["left"] if inside(p, os.path.join(*TEMPHEAD))]
            if rest:
                return "temp resource left %s behind after close(clear=True)" % rest[:4]
        else:
            beyond = [p for p in o["deleted"] if not inside(p, o["path"])]
            if beyond:
                return "close(clear=True) deleted %s outside its own path %s" % (beyond[:4], o["path"])
    return None


def execute_life(sandbox, flags, steps):
    """run one life (open, reopen*, close) of the model on a real Filer -> list of per-step observations"""
    from hio.base import filing
    for x in os.listdir(sandbox):
        shutil.rmtree(os.path.join(sandbox, x), True)
    head = os.path.join(sandbox, *HEAD)
    temphead = os.path.join(sandbox, *TEMPHEAD)
    os.makedirs(head)
    os.makedirs(temphead)
    saved = (filing.Filer.TempHeadDir, filing.Filer.AltHeadDirPath)
    filing.Filer.TempHeadDir = temphead
    filing.Filer.AltHeadDirPath = os.path.join(sandbox, "p", "q", "r", "alt")
    out = []
    try:
        with Guard(sandbox) as g:
            f = None
            for s in steps:
                before = snapshot(sandbox)
                o = {"raised": None}
                try:
                    with core.watchdog():
                        if s["op"] == "open":
                            f = filing.Filer(name=os.path.join(*flags["name"]), temp=s["t"], headDirPath=head, clean=flags["clean"],
                                             filed=flags["filed"], extensioned=flags["ext"], reopen=True)
                        elif s["op"] == "reopen":
                            f.reopen(temp=s["t"], clear=s["clear"], clean=flags["clean"])
                        else:
                            f.close(clear=s["clear"])
                except core.Hang:
                    o["raised"] = "Hang"
                except Exception as ex:
                    o["raised"] = "%s: %s" % (type(ex).__name__, ex)
                after = snapshot(sandbox)

                def rel(p):      # the k-th temporary root is called T<k>, as in the model
                    for k, t in enumerate(g.temps):
                        tr = os.path.relpath(t, sandbox)
                        if inside(p, tr):
                            return os.path.join(os.path.dirname(tr), "T%d" % (k + 1)) + p[len(tr):]
                    return p
                o["created"] = sorted(rel(p) for p in after - before)
                o["deleted"] = sorted(rel(p) for p in before - after)
                o["path"] = rel(os.path.relpath(f.path, sandbox)) if f is not None and f.path and g.ok(f.path) else str(f and f.path)
                o["refused"] = list(g.refused)
                out.append(o)
                if o["raised"] or f is None:
                    break
    finally:
        filing.Filer.TempHeadDir, filing.Filer.AltHeadDirPath = saved
    return out


def judge_life(steps, obs):
    for k, (s, o) in enumerate(zip(steps, obs)):
        what = "step %d %s(%s)" % (k + 1, s["op"], ", ".join("%s=%s" % (a, s[a]) for a in ("t", "clear") if not (s["op"] == "close" and a == "t")))
        if o["refused"]:
            return "%s tried to touch the filesystem outside the sandbox: %s" % (what, o["refused"][:3])
        if o["raised"]:
            return "%s raised %s" % (what, o["raised"])
        own = os.path.join(*(s["oldroot"] if s["wastemp"] else s["oldpath"])) if (s["oldroot"] if s["wastemp"] else s["oldpath"]) else None
        beyond = [p for p in o["deleted"] if own is None or not inside(p, own)]
        if beyond:
            return "%s deleted %s, outside what the resource owned (%s)" % (what, beyond[:4], own)
        if s["clear"] and s["wastemp"] and s["op"] != "open":
            want = sorted(os.path.join(*q) for q in s["deleted"])
            if o["deleted"] != want:
                return "%s with clear left temporary resources behind: deleted %s, owned %s" % (what, o["deleted"][:4], want[:4])
        if sorted(os.path.join(*q) for q in s["deleted"]) != o["deleted"]:
            return "%s deleted %s, the model deletes %s" % (what, o["deleted"][:4], sorted(os.path.join(*q) for q in s["deleted"])[:4])
        if sorted(os.path.join(*q) for q in s["created"]) != o["created"]:
            return "%s created %s, the model creates %s" % (what, o["created"][:4], sorted(os.path.join(*q) for q in s["created"])[:4])
        if s["op"] != "close" and os.path.normpath(o["path"]) != os.path.join(*s["path"]):
            return "%s: .path is %s, the model says %s" % (what, o["path"], os.path.join(*s["path"]))
    if len(obs) < len(steps):
        return "life ended after %d of %d steps" % (len(obs), len(steps))
    return None


def run_lives(ctx):
    gen = {"MCFilerReopen.tla": "---- MODULE MCFilerReopen ----\nEXTENDS FilerReopenGen\nMCHead == %s\nMCTempHead == %s\n"
                                'MCNames == {<<"a">>, <<"a", "b">>}\n====\n' % (core.tlaval.to_tla(HEAD), core.tlaval.to_tla(TEMPHEAD))}
    consts = {"HeadDir": "<-MCHead", "TempHead": "<-MCTempHead", "Names": "<-MCNames", "MaxReopens": 2 if ctx.quick else 3}
    r = ctx.tlc("misc", "MCFilerReopen", core.cfg_text(constants=consts, invariants=["StepsContained", "ClearedTempGone"]), gen=gen)
    for v in r.violated:
        ctx.violation("the reopen model violates %s" % v, {"tlc": r.out[-4000:]})
    g = ctx.tlc("misc", "MCFilerReopen", core.cfg_text(constants=consts, constraints=["Emit"]), gen=gen, workers=1)
    lives = g.tagged_json("RO")
    if len(lives) < 500:
        raise core.MachineryError("life dump too small: %d" % len(lives))
    sandbox = core.scratch_dir("hioverif_c29_")
    try:
        for m in lives:
            flags, steps = m["flags"], m["steps"]
            for s in steps:
                for k in ("oldroot", "oldpath", "path", "root"):
                    s[k] = list(s[k] or [])
                # a snapshot difference sees the net effect of a step: what it removed and made again is not in it
                dl, cr = [list(q) for q in (s["deleted"] or [])], [list(q) for q in (s["created"] or [])]
                s["deleted"], s["created"] = [q for q in dl if q not in cr], [q for q in cr if q not in dl]
            flags["name"] = list(flags["name"])
            obs = execute_life(sandbox, flags, steps)
            ctx.case(("life", flags["clean"], flags["filed"], flags["ext"], tuple(flags["name"]),
                      tuple((s["op"], s["t"], s["clear"]) for s in steps)),
                     {"flags": flags, "steps": [(s["op"], s["t"], s["clear"]) for s in steps]} if len(steps) == 4 and len(ctx.samples) < 3 else None)
            bad = judge_life(steps, obs)
            if bad:
                ctx.violation("Filer(%s) life %s: %s" % (", ".join("%s=%r" % kv for kv in flags.items()),
                                                         [(s["op"], s["t"], s["clear"]) for s in steps], bad),
                              {"life": {"flags": flags, "steps": steps}, "real": obs})
    finally:
        shutil.rmtree(sandbox, True)


def run_preexisting(ctx):
    """what is already there when a persistent Filer opens: a directory or a file at its path (left by an earlier run), or a
    head directory in which its tail cannot be made (then the alternate head directory is used).  Judged at the level of the
    property: everything created or deleted lies inside the head directory in use, close(clear) removes the path."""
    from hio.base import filing
    from hio import hioing
    sandbox = core.scratch_dir("hioverif_c29_")
    alt = os.path.join("p", "q", "r", "alt")
    try:
        for pre in ("dir", "file", "blocked"):
            for name in (["a"], ["a", "b"]):
                for clean in (False, True):
                    for filed in (False, True):
                        for ext in (False, True):
                            for clear in (False, True):
                                for x in os.listdir(sandbox):
                                    shutil.rmtree(os.path.join(sandbox, x), True)
                                head = os.path.join(sandbox, *HEAD)
                                os.makedirs(head)
                                os.makedirs(os.path.join(sandbox, "p", "q", "r", "keep"))
                                open(os.path.join(sandbox, "p", "q", "r", "keep", "sentinel"), "w").close()
                                tail = ["hio", "clean"] if clean else ["hio"]
                                leaf = name[:-1] + [name[-1] + (".text" if filed or ext else "")]
                                target = os.path.join(head, *tail, *leaf)
                                if pre == "blocked":
                                    with open(os.path.join(head, "hio"), "w") as fh:      # the tail directory cannot be made
                                        fh.write("x")
                                else:
                                    os.makedirs(os.path.dirname(target))
                                    if pre == "dir":
                                        os.makedirs(target)
                                        open(os.path.join(target, "old"), "w").close()
                                    else:
                                        open(target, "w").close()
                                saved = filing.Filer.AltHeadDirPath
                                filing.Filer.AltHeadDirPath = os.path.join(sandbox, alt)
                                before = snapshot(sandbox)
                                desc = "Filer(name=%r, clean=%s, filed=%s, extensioned=%s) with %s" % (
                                    os.path.join(*name), clean, filed, ext,
                                    {"dir": "a directory already at its path", "file": "a file already at its path",
                                     "blocked": "a file where its tail directory should be"}[pre])
                                ctx.case(("pre", pre, tuple(name), clean, filed, ext, clear))
                                bad = None
                                try:
                                    with Guard(sandbox) as g:
                                        f = None
                                        try:
                                            with core.watchdog():
                                                f = filing.Filer(name=os.path.join(*name), headDirPath=head, clean=clean, filed=filed,
                                                                 extensioned=ext, reopen=True)
                                        except (hioing.FilerError, OSError):
                                            pass          # refusing is allowed; what was touched is judged below
                                        opened = snapshot(sandbox)
                                        if f is not None:
                                            try:
                                                f.close(clear=clear)
                                            except OSError:
                                                pass
                                        closed = snapshot(sandbox)
                                        if g.refused:
                                            bad = "tried to touch the filesystem outside the sandbox: %s" % g.refused[:3]
                                    touched = (opened ^ before) | (closed ^ opened)
                                    inuse = alt if (f is not None and f.path and os.path.relpath(f.path, sandbox).startswith(alt)) else os.path.join(*HEAD)
                                    out = sorted(p for p in touched if not inside(p, inuse))
                                    if not bad and out:
                                        bad = "created or deleted outside the head directory %s: %s" % (inuse, out[:4])
                                    # (what was there before the Filer is not its creation: leaving it is allowed)
                                    if not bad and f is not None and clear and os.path.lexists(f.path) \
                                            and os.path.relpath(f.path, sandbox) not in before:
                                        bad = "close(clear=True) left %s, which this Filer created" % os.path.relpath(f.path, sandbox)
                                finally:
                                    filing.Filer.AltHeadDirPath = saved
                                if bad:
                                    ctx.violation("%s, close(clear=%s): %s" % (desc, clear, bad),
                                                  {"pre": [pre, name, clean, filed, ext, clear]})
    finally:
        shutil.rmtree(sandbox, True)


def run(ctx):
    run_lives(ctx)
    run_preexisting(ctx)
    gen = {"MCFilerPath.tla": "---- MODULE MCFilerPath ----\nEXTENDS FilerPathGen\nMCHead == %s\nMCTempHead == %s\n====\n" % (
        core.tlaval.to_tla(HEAD), core.tlaval.to_tla(TEMPHEAD))}
    segs = {"a", "headx", "..", "."}   # "headx": a sibling of the head directory whose name starts with the head's name
    consts = {"Segs": segs, "HeadDir": "<-MCHead", "TempHead": "<-MCTempHead", "MaxName": 2, "MaxBase": 2}
    r = ctx.tlc("misc", "MCFilerPath", core.cfg_text(constants=consts,
                                                      invariants=["Contained", "ClearRemovesOwn", "NothingOnRefusal"]), gen=gen)
    for v in r.violated:
        ctx.violation("the model violates %s" % v, {"tlc": r.out[-4000:]})
    gconsts = dict(consts, MaxBase=1 if ctx.quick else 2)
    g = ctx.tlc("misc", "MCFilerPath", core.cfg_text(constants=gconsts, constraints=["Emit"]), gen=gen, workers=1)
    cfgs = g.tagged_json("CF")
    if len(cfgs) < 1000:
        raise core.MachineryError("configuration dump too small: %d" % len(cfgs))
    sandbox = core.scratch_dir("hioverif_c29_")
    try:
        for m in cfgs:
            c = m["cfg"]
            c["name"], c["base"] = list(c["name"]), list(c["base"] or [])
            o = execute(sandbox, c)
            ctx.case((c["temp"], c["clean"], c["filed"], c["ext"], c["clear"], tuple(c["base"]), tuple(c["name"])),
                     {"cfg": c, "model": {k: m[k] for k in ("err", "path", "escapes")}, "real": o}
                     if m["escapes"] and c["temp"] and c["filed"] and len(ctx.samples) < 2 else None)
            bad = judge(m, o)
            if bad:
                ctx.violation("Filer(%s): %s" % (", ".join("%s=%r" % kv for kv in c.items()), bad), {"model": m, "real": o})
    finally:
        shutil.rmtree(sandbox, True)
    ctx.exhaustive = True
    return ctx.finish(rule="one case per life (flags, name, open(temp), <= 2 (quick) / 3 reopen(temp, clear), close(clear)) compared step by "
                           "step with FilerReopen.tla; one case per configuration (temp, clean, filed, extensioned, clear, base of <= 1 (quick) / 2 segments, name "
                           "of 1-2 segments over {a, headx, .., .}), each run in a fresh guarded sandbox",
                      assumptions=["a path equal to the head directory itself is a don't-care for the clear clauses",
                                   "shared intermediate directories (hio/, base/) of persistent resources are a don't-care; a temp "
                                   "resource owns its whole mkdtemp root",
                                   "symbolic links are not part of the alphabet"])


def replay_case(ctx, case):
    sandbox = core.scratch_dir("hioverif_c29_")
    try:
        if "pre" in case:
            n = len(ctx.violations)
            run_preexisting(ctx)
            return [ctx.violations[n][0]] if len(ctx.violations) > n else []
        if "life" in case:
            bad = judge_life(case["life"]["steps"], execute_life(sandbox, case["life"]["flags"], case["life"]["steps"]))
            return [bad] if bad else []
        m = case["model"]
        o = execute(sandbox, m["cfg"])
        bad = judge(m, o)
        return [bad] if bad else []
    finally:
        shutil.rmtree(sandbox, True)
