"""C13 - HTTP message parsing does not depend on how the bytes are fragmented.

MC:   specs/http/LineFrame.tla: every string <= 6 over {CR, LF, other} cut into reads in every possible way; Confluent and
      PrefixOfWhole for the terminator lists (CRLF, LF, CR), (CRLF, LF), (CRLF).  specs/http/Message.tla: the grammar of
      well-formed requests / responses (content-length, chunked with extensions and trailers, close-delimited, CRLF or
      bare LF, pipelines) with the abstract parse result of each.
S->C: (i) every (string, fragmentation) of LineFrame is fed to the real parseLine generator and the lines and the
      remainder compared with the model's; (ii) every message / pipeline TLC generates is concretised and fed to real
      Requestant / Respondent objects whole, byte by byte, in every 1-cut partition and in 2-cut partitions around the
      token boundaries; every fragmentation must give the whole-feed result, and that must be the model's.
"""
import itertools

from .. import core

SYM = {"C": b"\r", "L": b"\n", "o": b"x"}
EOLS = {"E3": ["CRLF", "LF", "CR"], "E2": ["CRLF", "LF"], "E1": ["CRLF"]}
BODIES = ["none", "cl0", "cl", "ch1", "ch2x", "ch2t", "ch0"]


def real_lines(inp, cuts, eolnames):
    from hio.core.http import httping
    eols = tuple({"CRLF": httping.CRLF, "LF": httping.LF, "CR": httping.CR}[e] for e in eolnames)
    raw = bytearray()
    gen = httping.parseLine(raw=raw, eols=eols)
    out = []
    pos = 0
    for k in cuts:
        raw.extend(b"".join(SYM[s] for s in inp[pos:pos + k]))
        pos += k
        while True:
            line = next(gen)
            if line is None:
                break
            out.append(bytes(line))
    return out, bytes(raw)


class Dummy:
    tymeout = 1.0


def snapshot(kind, p):
    hd = sorted((k.lower(), v) for k, v in (p.headers or {}).items())
    tr = sorted((k.lower(), v) for k, v in (p.trails or {}).items())
    base = {"headers": hd, "body": bytes(p.body), "trails": tr, "parms": sorted((str(k), v if v is None else str(v)) for k, v in (p.parms or {}).items()),
            "persisted": p.persisted, "errored": bool(p.errored), "error": p.error, "chunked": bool(p.chunked), "version": p.version,
            "length": p.length}
    if kind == "req":
        base.update(method=p.method, url=getattr(p, "url", None), path=getattr(p, "path", None), query=getattr(p, "query", None))
    else:
        base.update(status=p.status, reason=p.reason)
    return base


def parse_stream(kind, frags, close_at_end):
    """feed fragments to a real parser; -> (list of per-message results, leftover bytes) or ("raised", text)"""
    from hio.core.http import serving, clienting
    if kind == "req":
        p = serving.Requestant(msg=bytearray(), remoter=Dummy())
    else:
        p = clienting.Respondent(msg=bytearray(), method="GET")
    results = []

    def pump():
        while True:
            p.parse()
            if p.parser is None:      # a message ended (possibly in error)
                results.append(snapshot(kind, p))
                if p.errored:
                    return False
                p.makeParser()
                if not p.msg:
                    return True
                continue
            return True
    try:
        with core.watchdog():
            for f in frags:
                p.msg.extend(f)
                if not pump():
                    break
            else:
                if close_at_end:
                    p.close()
                    pump()
    except core.Hang:
        return "raised", "did not return"
    except Exception as ex:
        return "raised", "%s: %s" % (type(ex).__name__, ex)
    return results, bytes(p.msg)


def partitions(data, boundaries, quick):
    n = len(data)
    yield [data[i:i + 1] for i in range(n)]                      # byte by byte
    for i in range(1, n):                                         # every 1-cut
        yield [data[:i], data[i:]]
    near = sorted({b + d for b in boundaries for d in (-1, 0, 1) if 0 < b + d < n})
    if quick:
        near = near[::2]
    for i, j in itertools.combinations(near, 2):                  # 2-cuts around token boundaries
        yield [data[:i], data[i:j], data[j:]]


def check_expect(kind, res, exp):
    if res["errored"] != exp["errored"]:
        return "errored is %s (%s)" % (res["errored"], res["error"])
    if res["body"] != exp["body"].encode("latin-1"):
        return "body is %r, the message carries %r" % (res["body"], exp["body"])
    if len(res["headers"]) != exp["nhdr"]:
        return "%d header fields parsed, the message has %d" % (len(res["headers"]), exp["nhdr"])
    if bool(res["trails"]) != exp["trails"]:
        return "trailers %r" % (res["trails"],)
    if exp["trails"] and res["trails"] != [("t-one", "v1"), ("t-two", "v2")]:
        return "trailers %r" % (res["trails"],)
    if bool(res["parms"]) != exp["parms"]:
        return "chunk extension parameters %r" % (res["parms"],)
    if bool(res["persisted"]) != exp["persisted"]:
        return "persisted is %s, should be %s" % (res["persisted"], exp["persisted"])
    if res["version"] != ((1, 1) if exp["ver"] == "1.1" else (1, 0)):
        return "version %r" % (res["version"],)
    return None


def run_pipe(ctx, kind, pipe, quick, full_two_cuts):
    tokens = [t.encode("latin-1") for m in pipe for t in m["tokens"]]
    data = b"".join(tokens)
    bounds = list(itertools.accumulate(len(t) for t in tokens))[:-1]
    close_at_end = pipe[-1]["expect"]["untilclose"]
    whole = parse_stream(kind, [data], close_at_end)
    label = [m["m"] for m in pipe]
    # The property is about fragmentation only.  What the whole feed gives is compared with the grammar's abstract result to
    # bind the model to the parser, but a difference there (the same for every fragmentation) is not a C13 violation: it is
    # recorded as a divergence.
    if whole[0] == "raised":
        ctx.divergence("parsing %r raised %s" % (data, whole[1]))
    else:
        res, left = whole
        if len(res) != len(pipe) or left:
            ctx.divergence("whole feed of %r gives %d messages and leftover %r, the grammar has %d" % (data, len(res), left, len(pipe)))
        else:
            for r, m in zip(res, pipe):
                bad = check_expect(kind, r, m["expect"])
                if bad:
                    ctx.divergence("whole feed of %r: %s (message %s)" % (data, bad, m["m"]))
                    break
    res = whole[0] if whole[0] != "raised" else []
    n = 0
    for frags in partitions(data, bounds, quick and not full_two_cuts):
        n += 1
        got = parse_stream(kind, frags, close_at_end)
        if got != whole:
            what = "raised %s" % got[1] if got[0] == "raised" else \
                next(("message %d field %s: %r instead of %r" % (i + 1, k, a.get(k), b.get(k))
                      for i, (a, b) in enumerate(zip(got[0], res)) for k in b if a.get(k) != b.get(k)),
                     "%d messages, leftover %r" % (len(got[0]), got[1]))
            return "fed as %r differs from feeding %r at once: %s" % ([bytes(f) for f in frags][:8], data, what)
    ctx.parts = getattr(ctx, "parts", 0) + n
    return None


def run(ctx):
    gen = {"MCLineFrame.tla": "---- MODULE MCLineFrame ----\nEXTENDS LineFrameGen\n" +
           "".join("%s == %s\n" % (k, core.tlaval.to_tla(v)) for k, v in EOLS.items()) + "====\n"}
    nmc, ngen = (6, 5) if ctx.quick else (7, 6)
    for ename, eols in EOLS.items():
        r = ctx.tlc("http", "MCLineFrame", core.cfg_text(constants={"Eols": "<-" + ename, "MaxLen": nmc, "Algo": '"earliest"'},
                                                          invariants=["Confluent", "PrefixOfWhole"]), gen=gen)
        for v in r.violated:
            ctx.violation("the line framing model (%s) violates %s" % (eols, v), {"tlc": r.out[-3000:]})
        g = ctx.tlc("http", "MCLineFrame", core.cfg_text(constants={"Eols": "<-" + ename, "MaxLen": ngen, "Algo": '"earliest"'},
                                                          constraints=["Dump"]), gen=gen, workers=1)
        cases = g.tagged_json("LF")
        if len(cases) < 1000:
            raise core.MachineryError("line framing dump too small: %d" % len(cases))
        for c in cases:
            inp = list(c["input"] or [])
            want = ([b"".join(SYM[s] for s in (l or [])) for l in (c["out"] or [])], b"".join(SYM[s] for s in (c["raw"] or [])))
            try:
                got = real_lines(inp, c["cuts"] or [], eols)
            except Exception as ex:
                got = "raised %s: %s" % (type(ex).__name__, ex)
            ctx.case(("line", ename, "".join(inp), tuple(c["cuts"] or [])))
            if got != want:
                ctx.violation("parseLine with terminators %s on %r read as %s gives %r, should give lines %r and keep %r" % (
                    eols, b"".join(SYM[s] for s in inp), c["cuts"], got, want[0], want[1]),
                    {"kind": "line", "eols": eols, "input": inp, "cuts": c["cuts"], "want": [[l.decode() for l in want[0]], want[1].decode()]})
    # message level
    for kind in ("req", "resp"):
        bodies = set(BODIES) | ({"close"} if kind == "resp" else set())
        one = ctx.tlc("http", "MessageGen", core.cfg_text(constants={"Kind": '"%s"' % kind, "MaxPipe": 1, "Bodies": bodies, "Restrict": False},
                                                           invariants=["LengthsAgree"], constraints=["Emit"]), workers=1).tagged_json("MSG")
        two = ctx.tlc("http", "MessageGen", core.cfg_text(constants={"Kind": '"%s"' % kind, "MaxPipe": 2 if ctx.quick else 3,
                                                                      "Bodies": {"cl", "ch2x", "ch2t", "cl0"} | ({"close"} if kind == "resp" else set()),
                                                                      "Restrict": True},
                                                           constraints=["Emit"]), workers=1).tagged_json("MSG")
        two = [p for p in two if len(p) > 1]
        if len(one) < 150 or len(two) < 400:
            raise core.MachineryError("message dump too small: %d, %d" % (len(one), len(two)))
        import random
        rng = random.Random(ctx.seed)
        if ctx.quick:
            one_full = set(rng.sample(range(len(one)), 40))
            two = rng.sample(two, 250)
        else:       # every 2-cut of every message is hours of parsing: full 2-cuts for a third of them, 1-cuts and bytewise for all
            one_full = set(rng.sample(range(len(one)), len(one) // 3))
            two = rng.sample(two, min(len(two), 4000))
        for i, pipe in enumerate(one + two):
            ctx.case((kind, tuple(tuple(sorted(m["m"].items())) for m in pipe)),
                     {"kind": kind, "bytes": "".join(t for m in pipe for t in m["tokens"])} if i in (100, len(one) + 5) else None)
            bad = run_pipe(ctx, kind, pipe, ctx.quick, i in one_full)
            if bad:
                ctx.violation("%s: %s" % ("Requestant" if kind == "req" else "Respondent", bad), {"kind": "message", "side": kind, "pipe": pipe})
    ctx.exhaustive = True
    return ctx.finish(rule="line level: one case per (terminator list, string <= %d over {CR, LF, x}, fragmentation); message level: one "
                           "case per message / pipeline (each fed whole, bytewise, in every 1-cut and in 2-cuts around token boundaries)" % ngen,
                      extra={"fragmentations_fed": getattr(ctx, "parts", 0)},
                      assumptions=["chunk-size lines and chunk ends use CRLF (the only form the decoder accepts); head and trailer lines "
                                   "use CRLF or bare LF", "message text is fixed per grammar choice (short header names and values)"])


def replay_case(ctx, case):
    if case["kind"] == "line":
        want = ([l.encode() for l in case["want"][0]], case["want"][1].encode())
        got = real_lines(case["input"], case["cuts"] or [], case["eols"])
        return [] if got == want else ["parseLine gives %r, should give %r" % (got, want)]
    bad = run_pipe(ctx, case["side"], case["pipe"], False, True)
    return [bad] if bad else []
