"""C13 - HTTP message parsing does not depend on how the bytes are fragmented.

MC:   specs/http/LineFrame.tla: every string <= 6 over {CR, LF, other} cut into reads in every possible way; Confluent and
      PrefixOfWhole for the terminator lists (CRLF, LF, CR), (CRLF, LF), (CRLF).  specs/http/Message.tla: the grammar of
      well-formed requests / responses (content-length, chunked with extensions and trailers, close-delimited, CRLF or
      bare LF, pipelines) with the abstract parse result of each.
S->C: (i) every (string, fragmentation) of LineFrame is fed to the real parseLine generator and the lines and the
      remainder compared with the model's; (ii) every message / pipeline TLC generates is concretised and fed to real
      Requestant / Respondent objects whole, byte by byte, in every 1-cut partition and in 2-cut partitions around the
      token boundaries; every fragmentation must give the whole-feed result, and that must be the model's.
"""
import itertools

from .. import core

SYM = {"C": b"\r", "L": b"\n", "o": b"x"}
EOLS = {"E3": ["CRLF", "LF", "CR"], "E2": ["CRLF", "LF"], "E1": ["CRLF"]}
BODIES = ["none", "cl0", "cl", "ch1", "ch2x", "ch2t", "ch0"]


def real_lines(inp, cuts, eolnames, maxline=0):
    """-> (lines, remainder, LineTooLong raised).  maxline > 0: the module constant MAX_LINE_SIZE is set to the model's
    small limit for the duration of the call (the functions read the global at call time)"""
    from hio.core.http import httping
    eols = tuple({"CRLF": httping.CRLF, "LF": httping.LF, "CR": httping.CR}[e] for e in eolnames)
    raw = bytearray()
    saved = httping.MAX_LINE_SIZE
    if maxline:
        httping.MAX_LINE_SIZE = maxline
    try:
        gen = httping.parseLine(raw=raw, eols=eols)
        out = []
        pos = 0
        for k in cuts:
            raw.extend(b"".join(SYM[s] for s in inp[pos:pos + k]))
            pos += k
            while True:
                try:
                    line = next(gen)
                except httping.LineTooLong:
                    return out, None, True
                if line is None:
                    break
                out.append(bytes(line))
        return out, bytes(raw), False
    finally:
        httping.MAX_LINE_SIZE = saved


class Dummy:
    tymeout = 1.0


def snapshot(kind, p):
    hd = sorted((k.lower(), v) for k, v in (p.headers or {}).items())
    tr = sorted((k.lower(), v) for k, v in (p.trails or {}).items())
    base = {"headers": hd, "body": bytes(p.body), "trails": tr, "parms": sorted((str(k), v if v is None else str(v)) for k, v in (p.parms or {}).items()),
            "persisted": p.persisted, "errored": bool(p.errored), "error": p.error, "chunked": bool(p.chunked), "version": p.version,
            "length": p.length}
    if kind == "req":
        base.update(method=p.method, url=getattr(p, "url", None), path=getattr(p, "path", None), query=getattr(p, "query", None))
    else:
        base.update(status=p.status, reason=p.reason)
    return base


def parse_stream(kind, frags, close_at_end):
    """feed fragments to a real parser; -> (list of per-message results, leftover bytes) or ("raised", text)"""
    from hio.core.http import serving, clienting
    if kind == "req":
        p = serving.Requestant(msg=bytearray(), remoter=Dummy())
    else:
        p = clienting.Respondent(msg=bytearray(), method="GET")
    results = []

    def pump():
        while True:
            p.parse()
            if p.parser is None:      # a message ended (possibly in error)
                results.append(snapshot(kind, p))
                if p.errored:
                    return False
                p.makeParser()
                if not p.msg:
                    return True
                continue
            return True
    try:
        with core.watchdog():
            for f in frags:
                p.msg.extend(f)
                if not pump():
                    break
            else:
                if close_at_end:
                    p.close()
                    pump()
    except core.Hang:
        import traceback
        import sys as _sys
        fr = traceback.extract_tb(_sys.exc_info()[2])[-3:]
        return "raised", "did not return (in %s)" % "; ".join("%s:%d %s" % (f.filename.split("/")[-1], f.lineno, f.name) for f in fr)
    except Exception as ex:
        return "raised", "%s: %s" % (type(ex).__name__, ex)
    if results and results[-1]["errored"]:
        return results, None            # parsing stopped: what is left unread depends on how much was fed, not on the parser
    return results, bytes(p.msg)


def partitions(data, boundaries, quick):
    n = len(data)
    yield [data[i:i + 1] for i in range(n)]                      # byte by byte
    for i in range(1, n):                                         # every 1-cut
        yield [data[:i], data[i:]]
    near = sorted({b + d for b in boundaries for d in (-1, 0, 1) if 0 < b + d < n})
    if quick:
        near = near[::2]
    for i, j in itertools.combinations(near, 2):                  # 2-cuts around token boundaries
        yield [data[:i], data[i:j], data[j:]]


def check_expect(kind, res, exp):
    if res["errored"] != exp["errored"]:
        return "errored is %s (%s)" % (res["errored"], res["error"])
    if res["body"] != exp["body"].encode("latin-1"):
        return "body is %r, the message carries %r" % (res["body"], exp["body"])
    if len(res["headers"]) != exp["nhdr"]:
        return "%d header fields parsed, the message has %d" % (len(res["headers"]), exp["nhdr"])
    if bool(res["trails"]) != exp["trails"]:
        return "trailers %r" % (res["trails"],)
    if exp["trails"] and res["trails"] != [("t-one", "v1"), ("t-two", "v2")]:
        return "trailers %r" % (res["trails"],)
    if bool(res["parms"]) != exp["parms"]:
        return "chunk extension parameters %r" % (res["parms"],)
    if bool(res["persisted"]) != exp["persisted"]:
        return "persisted is %s, should be %s" % (res["persisted"], exp["persisted"])
    if res["version"] != ((1, 1) if exp["ver"] == "1.1" else (1, 0)):
        return "version %r" % (res["version"],)
    return None


def run_pipe(ctx, kind, pipe, quick, full_two_cuts):
    tokens = [t.encode("latin-1") for m in pipe for t in m["tokens"]]
    data = b"".join(tokens)
    bounds = list(itertools.accumulate(len(t) for t in tokens))[:-1]
    close_at_end = pipe[-1]["expect"]["untilclose"]
    whole = parse_stream(kind, [data], close_at_end)
    label = [m["m"] for m in pipe]
    # The property is about fragmentation only.  What the whole feed gives is compared with the grammar's abstract result to
    # bind the model to the parser, but a difference there (the same for every fragmentation) is not a C13 violation: it is
    # recorded as a divergence.
    if whole[0] == "raised":
        ctx.divergence("parsing %r raised %s" % (data, whole[1]))
    else:
        res, left = whole
        if len(res) != len(pipe) or left:
            ctx.divergence("whole feed of %r gives %d messages and leftover %r, the grammar has %d" % (data, len(res), left, len(pipe)))
        else:
            for r, m in zip(res, pipe):
                bad = check_expect(kind, r, m["expect"])
                if bad:
                    ctx.divergence("whole feed of %r: %s (message %s)" % (data, bad, m["m"]))
                    break
    res = whole[0] if whole[0] != "raised" else []
    n = 0
    for frags in partitions(data, bounds, quick and not full_two_cuts):
        n += 1
        got = parse_stream(kind, frags, close_at_end)
        if got != whole:
            what = "raised %s" % got[1] if got[0] == "raised" else \
                next(("message %d field %s: %r instead of %r" % (i + 1, k, a.get(k), b.get(k))
                      for i, (a, b) in enumerate(zip(got[0], res)) for k in b if a.get(k) != b.get(k)),
                     "%d messages, leftover %r" % (len(got[0]), got[1]))
            return "fed as %r differs from feeding %r at once: %s" % ([bytes(f) for f in frags][:8], data, what)
    ctx.parts = getattr(ctx, "parts", 0) + n
    return None


def stretch(tokens, i, total):
    """lengthen line token i (its terminator is the next token) to `total` bytes without changing what kind of line it is"""
    t = tokens[i]
    pad = total - len(t)
    if i == 0:
        if t.startswith("HTTP/"):
            t = t + "K" * pad                      # status line: longer reason phrase
        else:
            a, b = t.split("?x=1", 1)
            t = a + "?x=1" + "1" * pad + b         # request line: longer query
    elif ":" in t:
        t = t + "v" * pad                          # header / trailer field: longer value
    elif ";" in t:
        t = t + "e" * pad                          # chunk size line with extensions: longer last extension
    else:
        t = t + ";e=" + "e" * (pad - 3)            # chunk size line: an extension
    assert len(t) == total, (tokens[i], total, len(t))
    return tokens[:i] + [t] + tokens[i + 1:]


def long_lines(ctx, kind, one):
    """lines around the length limit MAX_LINE_SIZE at real scale: start line, a header field, a chunk size line and a trailer
    field of MAX-1, MAX and MAX+1 bytes, cut near every token boundary (1 and 2 cuts); as always: every fragmentation must
    give what the whole feed gives"""
    from hio.core.http import httping
    mx = httping.MAX_LINE_SIZE
    picks = {}
    for pipe in one:
        m = pipe[0]
        key = (m["m"]["body"], m["m"]["eol"])
        if key[0] in ("ch2t", "cl", "ch2x") and m["m"]["hdrs"] == 0 and m["m"]["conn"] == "none" and m["m"]["ver"] == "1.1" \
                and m["m"].get("pre", "none") == "none" and key not in picks:
            picks[key] = pipe
    n = 0
    for key, pipe in sorted(picks.items()):
        toks = list(pipe[0]["tokens"])
        lines = [0, 2]                                                     # start line, Host field
        after_head = next(i for i in range(len(toks) - 1) if toks[i] in ("\r\n", "\n") and toks[i + 1] in ("\r\n", "\n")) + 2
        if key[0].startswith("ch"):
            lines.append(after_head)                                       # first chunk size line
        lines += [i for i, t in enumerate(toks) if t.startswith("T-One")]  # a trailer field
        for li in lines:
            for total in (mx - 1, mx, mx + 1):
                st = stretch(toks, li, total)
                data = "".join(st).encode("latin-1")
                bounds = list(itertools.accumulate(len(t) for t in st))[:-1]
                near = sorted({b + d for b in bounds for d in (-2, -1, 0, 1, 2) if 0 < b + d < len(data)})
                start, end = sum(len(t) for t in st[:li]), sum(len(t) for t in st[:li + 1])
                close_at_end = pipe[0]["expect"]["untilclose"]
                whole = parse_stream(kind, [data], close_at_end)
                parts = [[data[:i], data[i:]] for i in near]
                around = [c for c in near if start - 2 <= c <= end + 4]
                parts += [[data[:i], data[i:j], data[j:]] for i in around for j in near if j > i]
                ctx.case(("long", kind, key, li, total - mx))
                for frags in parts:
                    n += 1
                    got = parse_stream(kind, frags, close_at_end)
                    if got != whole:
                        desc = lambda r: ("raised " + r[1]) if r[0] == "raised" else \
                            "%d message(s)%s" % (len(r[0]), "".join(", errored: %s" % (x["error"],) for x in r[0] if x["errored"]))
                        ctx.violation("%s: a %s message whose line %d is %d bytes long (MAX_LINE_SIZE %+d), cut at %s, gives %s; fed at once: %s" % (
                            "Requestant" if kind == "req" else "Respondent", key, li, total, total - mx,
                            [len(f) for f in frags][:-1], desc(got), desc(whole)),
                            {"kind": "long", "side": kind, "tokens": toks, "line": li, "delta": total - mx,
                             "cuts": list(itertools.accumulate(len(f) for f in frags))[:-1], "close": close_at_end})
                        break
    ctx.parts = getattr(ctx, "parts", 0) + n


class Collect:
    """stand-in for ctx inside a worker process: collects what run_pipe reports"""

    def __init__(self):
        self.divergences, self.parts = [], 0

    def divergence(self, what):
        self.divergences.append(what)


def _pipe_job(args):
    kind, pipe, quick, full = args
    c = Collect()
    bad = run_pipe(c, kind, pipe, quick, full)
    return bad, c.divergences, c.parts


def run_pipes(ctx, kind, pipes, full_idx):
    """message level, spread over worker processes (forked: they share the loaded tree); results come back in order"""
    import gc
    import multiprocessing
    jobs = [(kind, pipe, ctx.quick, i in full_idx) for i, pipe in enumerate(pipes)]
    # the parent's heap (millions of objects parsed from TLC's output) is inherited by the workers: frozen, so that their
    # garbage collector never walks it (a full collection of it takes CPU seconds and would be counted against the code
    # under test by the watchdog)
    gc.collect()
    gc.freeze()
    with multiprocessing.get_context("fork").Pool(12) as pool:
        for (kindx, pipe, _, _), (bad, divs, parts) in zip(jobs, pool.imap(_pipe_job, jobs, chunksize=8)):
            for d in divs:
                ctx.divergence(d)
            core.PROGRESS["t"] = __import__("time").time()
            ctx.parts = getattr(ctx, "parts", 0) + parts
            if bad:
                ctx.violation("%s: %s" % ("Requestant" if kind == "req" else "Respondent", bad), {"kind": "message", "side": kind, "pipe": pipe})
    gc.unfreeze()


def run(ctx):
    gen = {"MCLineFrame.tla": "---- MODULE MCLineFrame ----\nEXTENDS LineFrameGen\n" +
           "".join("%s == %s\n" % (k, core.tlaval.to_tla(v)) for k, v in EOLS.items()) + "====\n"}
    nmc, ngen = (6, 5) if ctx.quick else (7, 6)
    # (terminator list, line length limit): 0 = no limit reached within the strings; 2 = lines of 1, 2, 3.. bytes around the limit
    for ename, maxline in [(e, 0) for e in EOLS] + [("E3", 2), ("E2", 2), ("E1", 2)]:
        eols = EOLS[ename]
        lc = {"Eols": "<-" + ename, "Algo": '"earliest"', "MaxLine": maxline, "Limit": '"held"'}
        r = ctx.tlc("http", "MCLineFrame", core.cfg_text(constants=dict(lc, MaxLen=nmc), invariants=["Confluent", "PrefixOfWhole"]), gen=gen)
        for v in r.violated:
            ctx.violation("the line framing model (%s, limit %d) violates %s" % (eols, maxline, v), {"tlc": r.out[-3000:]})
        g = ctx.tlc("http", "MCLineFrame", core.cfg_text(constants=dict(lc, MaxLen=ngen), constraints=["Dump"]), gen=gen, workers=1)
        cases = g.tagged_json("LF")
        if len(cases) < 1000:
            raise core.MachineryError("line framing dump too small: %d" % len(cases))
        for c in cases:
            inp = list(c["input"] or [])
            want = ([b"".join(SYM[s] for s in (l or [])) for l in (c["out"] or [])],
                    None if c["err"] else b"".join(SYM[s] for s in (c["raw"] or [])), c["err"])
            try:
                got = real_lines(inp, c["cuts"] or [], eols, maxline)
            except Exception as ex:
                got = "raised %s: %s" % (type(ex).__name__, ex)
            ctx.case(("line", ename, maxline, "".join(inp), tuple(c["cuts"] or [])))
            if got != want:
                ctx.violation("parseLine with terminators %s%s on %r read as %s gives %r, should give lines %r, %s" % (
                    eols, " and MAX_LINE_SIZE %d" % maxline if maxline else "", b"".join(SYM[s] for s in inp), c["cuts"], got, want[0],
                    "and LineTooLong" if want[2] else "keep %r" % want[1]),
                    {"kind": "line", "eols": eols, "input": inp, "cuts": c["cuts"], "maxline": maxline,
                     "want": [[l.decode() for l in want[0]], None if want[1] is None else want[1].decode(), want[2]]})
    # message level
    for kind in ("req", "resp"):
        bodies = set(BODIES) | ({"close"} if kind == "resp" else set())
        one = ctx.tlc("http", "MessageGen", core.cfg_text(constants={"Kind": '"%s"' % kind, "MaxPipe": 1, "Bodies": bodies, "Restrict": False},
                                                           invariants=["LengthsAgree"], constraints=["Emit"]), workers=1).tagged_json("MSG")
        two = ctx.tlc("http", "MessageGen", core.cfg_text(constants={"Kind": '"%s"' % kind, "MaxPipe": 2 if ctx.quick else 3,
                                                                      "Bodies": {"cl", "ch2x", "ch2t", "cl0"} | ({"close"} if kind == "resp" else set()),
                                                                      "Restrict": True},
                                                           constraints=["Emit"]), workers=1).tagged_json("MSG")
        two = [p for p in two if len(p) > 1]
        long_lines(ctx, kind, one)
        if len(one) < 150 or len(two) < 400:
            raise core.MachineryError("message dump too small: %d, %d" % (len(one), len(two)))
        import random
        rng = random.Random(ctx.seed)
        if ctx.quick:
            one_full = set(rng.sample(range(len(one)), 40))
            two = rng.sample(two, 250)
        else:       # every 2-cut of every message is hours of parsing: full 2-cuts for a third of them, 1-cuts and bytewise for all
            one_full = set(rng.sample(range(len(one)), len(one) // 3))
            two = rng.sample(two, min(len(two), 4000))
        for i, pipe in enumerate(one + two):
            ctx.case((kind, tuple(tuple(sorted(m["m"].items())) for m in pipe)),
                     {"kind": kind, "bytes": "".join(t for m in pipe for t in m["tokens"])} if i in (100, len(one) + 5) else None)
        run_pipes(ctx, kind, one + two, one_full)
    ctx.exhaustive = True
    return ctx.finish(rule="line level: one case per (terminator list, string <= %d over {CR, LF, x}, fragmentation); message level: one "
                           "case per message / pipeline (each fed whole, bytewise, in every 1-cut and in 2-cuts around token boundaries)" % ngen,
                      extra={"fragmentations_fed": getattr(ctx, "parts", 0)},
                      assumptions=["chunk-size lines and chunk ends use CRLF (the only form the decoder accepts); head and trailer lines "
                                   "use CRLF or bare LF", "message text is fixed per grammar choice (short header names and values)"])


def replay_case(ctx, case):
    if case["kind"] == "line":
        w = case["want"] + [False] * (3 - len(case["want"]))
        want = ([l.encode() for l in w[0]], None if w[1] is None else w[1].encode(), w[2])
        got = real_lines(case["input"], case["cuts"] or [], case["eols"], case.get("maxline", 0))
        return [] if got == want else ["parseLine gives %r, should give %r" % (got, want)]
    if case["kind"] == "long":
        from hio.core.http import httping
        st = stretch(case["tokens"], case["line"], httping.MAX_LINE_SIZE + case["delta"])
        data = "".join(st).encode("latin-1")
        cuts = [0] + case["cuts"] + [len(data)]
        got = parse_stream(case["side"], [data[a:b] for a, b in zip(cuts, cuts[1:])], case["close"])
        return [] if got == parse_stream(case["side"], [data], case["close"]) else ["the cut feed differs from the whole feed"]
    bad = run_pipe(ctx, case["side"], case["pipe"], False, True)
    return [bad] if bad else []
