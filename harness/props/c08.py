"""C08 - virtual Tymer exact and restart lossless; MonoTimer monotone under backward clock steps.

MC:   Tymer.tla (RestartLossless, ExpiredExact) and MonoTimer.tla (ElapsedMonotone, ExpiredSticky as action
      properties) for every op/clock sequence in the bound.
S->C: op sequences with the model's expected reports (exhaustive short ones + tlc -simulate long ones) replayed
      on real Tymer (on a real Tymist) and real MonoTimer (fake time module); every report must be equal.
"""
from .. import core

SCALES = [0.03125, 0.25, 1.0, 3.0]
NONE = -999


def qn(v, q):
    x = v / q
    return int(x) if float(x).is_integer() else x


def replay_tymer(h, q):
    from hio.base import tyming
    new = h[0]
    start = None if new["b"] == NONE else new["b"] * q
    tymist = tyming.Tymist(tyme=new["obs"]["tyme"] * q)
    tymer = tyming.Tymer(tymth=tymist.tymen(), duration=new["a"] * q, start=start)
    out = []

    def obs():
        return {"elapsed": qn(tymer.elapsed, q), "remaining": qn(tymer.remaining, q), "expired": bool(tymer.expired),
                "duration": qn(tymer.duration, q), "tyme": qn(tymist.tyme, q)}
    out.append(obs())
    for e in h[1:]:
        a = None if e["a"] == NONE else e["a"] * q
        b = None if e["b"] == NONE else e["b"] * q
        if e["op"] == "settyme":
            tymist.tyme = a
        elif e["op"] == "tick":
            tymist.tick(tock=a)
        elif e["op"] == "start":
            tymer.start(duration=a, start=b)
        elif e["op"] == "restart":
            tymer.restart(duration=a)
        out.append(obs())
    return out


def tymer_relation(h, q):
    # q is a divisor here: values are v / q (decimal-looking floats such as 0.6, 1.1, 1.7), not v * (1/q)
    """non-dyadic time scale: the exact values are not representable, but expired must still be exactly (remaining <= 0)
    (IEEE subtraction has the sign of the exact difference);
    -> problem text or None"""
    from hio.base import tyming
    new = h[0]
    start = None if new["b"] == NONE else new["b"] / q
    tymist = tyming.Tymist(tyme=new["obs"]["tyme"] / q)
    tymer = tyming.Tymer(tymth=tymist.tymen(), duration=new["a"] / q, start=start)
    for k, e in enumerate(h):
        if k:
            a = None if e["a"] == NONE else e["a"] / q
            b = None if e["b"] == NONE else e["b"] / q
            if e["op"] == "settyme":
                tymist.tyme = a
            elif e["op"] == "tick":
                tymist.tick(tock=a)
            elif e["op"] == "start":
                tymer.start(duration=a, start=b)
            elif e["op"] == "restart":
                tymer.restart(duration=a)
        rem, exp = tymer.remaining, bool(tymer.expired)
        # (a shadow computation of the stop tyme would differ from the code's own by an ulp: only the relation between
        # the timer's own reports is exact in floating point)
        if exp != (rem <= 0):
            return "after op %d (%s) at scale %r: tyme %r, remaining %r but expired is %s" % (
                k, {x: e[x] for x in ("op", "a", "b")}, q, tymist.tyme, rem, exp)
    return None


class FT:
    def __init__(self):
        self.w = 0.0

    def time(self):
        return self.w


def replay_mono(h, q, expired_first=False, cls="MonoTimer"):
    from hio.help import timing
    ft = FT()
    old = timing.time
    timing.time = ft
    out = []
    try:
        ft.w = h[0]["w"] * q
        t = getattr(timing, cls)(duration=h[0]["a"] * q)
        out.append([])
        for e in h[1:]:
            a = None if e["a"] == NONE else e["a"] * q
            if e["op"] == "read":
                ft.w = e["w"] * q
                if expired_first:     # the order of the property reads must not matter (each applies the clock compensation)
                    x = bool(t.expired)
                    out.append({"elapsed": qn(t.elapsed, q), "remaining": qn(t.remaining, q), "expired": x})
                else:
                    out.append({"elapsed": qn(t.elapsed, q), "remaining": qn(t.remaining, q), "expired": bool(t.expired)})
            elif e["op"] == "start":
                ft.w = e["w"] * q
                t.start(duration=a)
                out.append([])
            elif e["op"] == "restart":
                t.restart(duration=a)
                out.append([])
    finally:
        timing.time = old
    return out


def judge_mono(h, real):
    """MonoTimer: the property decides, not the model -> (violation | None, divergence | None).
    Between starts/restarts elapsed never decreases and expired never reverts, whatever the clock does; and as long as
    the clock has not stepped backwards since the timer was (re)started with start(), the reports are exact:
    elapsed = now - start, remaining = stop - now, expired iff now >= stop.  After a backward step the exact values
    are the implementation's choice: a difference from the model is recorded as a divergence, not an alarm."""
    if not isinstance(real, list):
        return str(real), None
    start = lastw = h[0]["w"]
    dur = h[0]["a"]
    stop = start + dur
    stepped = False
    prev_el, was_exp = None, False
    div = None
    for k in range(1, len(h)):
        e = h[k]
        if e["op"] == "start":
            start = lastw = e["w"]
            dur = dur if e["a"] == NONE else e["a"]
            stop = start + dur
            stepped, prev_el, was_exp = False, None, False
        elif e["op"] == "restart":
            nd = dur if e["a"] == NONE else e["a"]
            start, stop, dur = stop, stop + nd, nd
            prev_el, was_exp = None, False
        else:
            r = real[k] if k < len(real) else None
            if not isinstance(r, dict):
                return "no report after op %d" % k, None
            w = e["w"]
            if w < lastw:
                stepped = True
            lastw = w
            if prev_el is not None and r["elapsed"] < prev_el:
                return "elapsed decreased from %s to %s at op %d (clock %s)" % (prev_el, r["elapsed"], k, w), None
            if was_exp and not r["expired"]:
                return "expired reverted to False at op %d (clock %s)" % (k, w), None
            if not stepped:
                want = {"elapsed": w - start, "remaining": stop - w, "expired": w >= stop}
                if r != want:
                    return "report at op %d (clock %s, no backward step since start) is %s, exact value %s" % (k, w, r, want), None
            elif r != e["obs"] and div is None:
                div = "report at op %d after a backward clock step is %s, model %s" % (k, r, e["obs"])
            prev_el, was_exp = r["elapsed"], r["expired"]
    return None, div


def replay_case(ctx, case):
    h, qq = case["ops"], case.get("q", 0.25)
    if case.get("nondyadic"):
        bad = tymer_relation(h, qq)
        return [bad] if bad else []
    if "tyme" in (h[0].get("obs") or {}) if isinstance(h[0].get("obs"), dict) else False:
        real = replay_tymer(h, qq)
        return [] if real == [e["obs"] for e in h] else ["Tymer reports differ from the exact values: %s" % real]
    try:
        with core.watchdog():
            real = replay_mono(h, qq, cls=case.get("cls", "MonoTimer"))
    except (Exception, core.Hang) as ex:
        real = "raised %s: %s" % (type(ex).__name__, ex)
    bad, div = judge_mono(h, real)
    if div:
        print("note:", div)
    return [bad] if bad else []


def run(ctx):
    q = ctx.quick
    tconst = {"Vals": {0, 1, 2, 3, 5}, "Durs": {0, 1, 2, 4}, "Ticks": {1, 2}, "MaxOps": 5 if q else 7}
    mconst = {"Walls": {0, 1, 2, 3, 5, 8}, "Durs": {0, 1, 2, 4}, "MaxOps": 5 if q else 7}
    r1 = ctx.tlc("time", "Tymer", core.cfg_text(constants=tconst, invariants=["ExpiredExact"], properties=["RestartLossless"], view="MCView"))
    r2 = ctx.tlc("time", "MonoTimer", core.cfg_text(constants=mconst, properties=["ElapsedMonotone", "ExpiredSticky"], view="MCView"))
    for r in (r1, r2):
        for v in r.violated:
            ctx.violation("model violates %s" % v, {"tlc_tail": r.out[-4000:]})
    n = 4000 if q else 120000
    divergences = []
    for mod, consts, fn, depth in (
            ("TymerGen", dict(tconst, Vals={0, 2, 5}, Durs={0, 2}, MaxOps=2), replay_tymer, None),
            ("TymerGen", {"Vals": set(range(0, 13)), "Durs": {0, 1, 2, 4, 7}, "Ticks": {1, 2, 3}, "MaxOps": 10}, replay_tymer, 12),
            ("MonoTimerGen", dict(mconst, Walls={0, 2, 5}, Durs={0, 2}, MaxOps=3), replay_mono, None),
            ("MonoTimerGen", {"Walls": set(range(0, 14)), "Durs": {0, 1, 2, 4, 7}, "MaxOps": 12}, replay_mono, 14)):
        g = ctx.tlc("time", mod, core.cfg_text(constants=consts, constraints=["Dump"]), workers=1,
                    simulate=("num=%d" % max(50, n // 40)) if depth else None, depth=depth)
        behs = g.tagged_json("BH")
        if len(behs) < 50:
            raise core.MachineryError("too few behaviours from %s: %d" % (mod, len(behs)))
        if depth and len(behs) > n:      # TLC does not stop exactly at num: replay a seeded sample
            import random
            behs = random.Random(ctx.seed).sample(behs, n)
        for i, h in enumerate(behs):
            qq = SCALES[(i + ctx.seed) % 4]
            try:
                with core.watchdog():
                    real = fn(h, qq, i % 2 == 1) if fn is replay_mono else fn(h, qq)
            except (Exception, core.Hang) as ex:
                real = "raised %s: %s" % (type(ex).__name__, ex)
            exp = [e["obs"] for e in h]
            ctx.traces += 1
            ctx.case((mod, str(h)), {"ops": h[:4]} if i % 997 == 1 else None)
            if fn is replay_mono:
                bad, div = judge_mono(h, real)
                if bad:
                    ctx.violation("MonoTimer: %s" % bad, {"ops": h, "real": real, "q": qq})
                elif div:
                    divergences.append(div)
                ws = [e["w"] for e in h if "w" in e and e["op"] in ("read", "start")] if len(h) > 1 else []
                if all(a <= b for a, b in zip([h[0]["w"]] + ws, ws)):
                    # the clock never steps back in this behaviour: the plain wall clock Timer must report the same exact values
                    try:
                        with core.watchdog():
                            real2 = replay_mono(h, qq, i % 2 == 1, cls="Timer")
                    except (Exception, core.Hang) as ex:
                        real2 = "raised %s: %s" % (type(ex).__name__, ex)
                    ctx.case(("Timer", str(h)))
                    bad2, _ = judge_mono(h, real2)
                    if bad2:
                        ctx.violation("Timer: %s" % bad2, {"ops": h, "real": real2, "q": qq, "cls": "Timer"})
            elif real != exp:
                k = next((j for j in range(len(exp)) if not isinstance(real, list) or j >= len(real) or real[j] != exp[j]), 0)
                ctx.violation("%s: report after op %d (%s) differs: code %s model %s" %
                              (mod[:-3], k, {x: h[k][x] for x in ("op", "a")}, real[k] if isinstance(real, list) and k < len(real) else real, exp[k]),
                              {"ops": h, "real": real, "q": qq})
    # non-dyadic scales: relational oracle only (no exact values exist), all Tymer behaviours again
    g = ctx.tlc("time", "TymerGen", core.cfg_text(constants={"Vals": set(range(0, 21)), "Durs": {0, 1, 2, 4, 7, 11, 13}, "Ticks": {1, 2, 3}, "MaxOps": 8},
                                                  constraints=["Dump"]), workers=1, simulate="num=%d" % max(100, n // 20), depth=10)
    for i, h in enumerate(g.tagged_json("BH")):
        for qq in (10.0, 3.0, 7.0, 0.3):
            ctx.case(("tymer-nondyadic", str(h), qq))
            try:
                bad = tymer_relation(h, qq)
            except Exception as ex:
                bad = "raised %s: %s" % (type(ex).__name__, ex)
            if bad:
                ctx.violation("Tymer: %s" % bad, {"ops": h, "q": qq, "nondyadic": True})
    if divergences:
        ctx.note("%d MonoTimer runs differ from the model after a backward step without breaking C08 (first: %s)" %
                 (len(divergences), divergences[0]))
    return ctx.finish(extra={"model_divergences_not_violations": len(divergences)}, rule="op sequences over small integer tyme/clock values x 4 exact time scales; distinct by op sequence",
                      assumptions=["exact values are compared at dyadic time scales; at decimal and other non-dyadic scales (v/10, v/3, v/7, v/0.3) only the exact relation expired == (remaining <= 0) between the Tymer's own reports is demanded",
                                   "each group of reads (elapsed, remaining, expired) is taken with the clock held still"])
