"""C10 - connection-level socket faults never escape servicing; the connection is cut off / aborted; siblings go on.

MC:   specs/tcp/Conn.tla with faults: NeverRaised, FaultCutsOff, AbortedStays, SiblingUntouched and the byte-stream
      invariants for two connections, every fault position (send, recv after k bytes, handshake), plain and TLS.
S->C: endpoint level. Every behaviour of the model with an abstract fault "F" is executed on real Client / ClientTls /
      Remoter / RemoterTls objects once per concrete fault (each errno the property lists, and SSL EOF for the TLS
      classes): no exception may escape serviceSends / serviceReceives / serviceConnect, the cutoff flag and every byte
      must be the model's.
C->S: server level. Random executions of a real Server and ServerTls with three scripted connections (faults at any
      send / recv / handshake of any connection, traffic on the others) are recorded one event per Server.service()
      call and validated in batch by ConnTrace.tla: an event whose call raised, or whose sibling bytes differ, is rejected.
"""
import random

from .. import core, tcpadapt

ERRNOS = ["ECONNRESET", "EPIPE", "ENETRESET", "ENETUNREACH", "EHOSTUNREACH", "ENETDOWN", "EHOSTDOWN", "ETIMEDOUT",
          "ECONNREFUSED"]
FIELDS = ("txbs", "wire", "rxbs", "cutoff", "hs")


def faults_for(kind):
    return ERRNOS + (["SSLEOF"] if kind.endswith("tls") else [])


def consts(tls, maxops, maxbytes, conns=(1,), hs=False):
    return {"Conns": set(conns), "TxSizes": {1, 2}, "Accepts": {1, 9}, "PeerSizes": {2}, "ChunkSizes": {1, 2},
            "Faults": {"F"}, "MaxBytes": maxbytes, "MaxOps": maxops, "Tls": tls, "WithPass": False, "Handshakes": hs}


def concretise(h, f):
    def sub(x):
        if isinstance(x, list):
            return [sub(y) for y in x]
        return f if x == "F" else x
    return [dict(e, a=sub(e["a"])) for e in h]


def has_fault(h):
    return any("F" in str(e["a"]) for e in h)


def replay(kind, h, handshakes):
    ep = tcpadapt.Endpoint(kind, handshakes=handshakes)
    for k, e in enumerate(h):
        if e["op"] == "handshake" and kind != "clienttls":
            return None      # a server side handshake is serviced by the server: covered by the server level traces
        err = ep.apply(e)
        if err:
            return "step %d %s%s: servicing raised %s (steps so far %s)" % (
                k + 1, e["op"], e["a"], err, [(x["op"], x["a"]) for x in h[:k + 1]])
        if e["op"] == "again":
            # only "does not raise"; a client whose handshake was aborted has connected anew: the rest of the behaviour is
            # about the old connection and cannot be compared any further
            if (e["obs"]["1"] if isinstance(e["obs"], dict) else e["obs"][0])["hs"] == "aborted" and kind.startswith("client"):
                return None
            continue
        o = e["obs"]["1"] if isinstance(e["obs"], dict) else e["obs"][0]
        real, want = ep.obs(), tcpadapt.expect(o, 0, 0)
        if want["hs"] == "aborted":
            fields = ("wire", "hs")
        else:
            fields = FIELDS
        d = tcpadapt.diff(real, want, fields)
        if d:
            return "step %d %s%s: %s is %r, should be %r (steps so far %s)" % (
                k + 1, e["op"], e["a"], d[0], d[1], d[2], [(x["op"], x["a"]) for x in h[:k + 1]])
    return None


def random_trace(rng, tls, nconn, steps):
    """drive a real server; returns list of events with observations"""
    conns = list(range(1, nconn + 1))
    gone = [c for c in conns if rng.random() < 0.15]          # peers that reset before the server accepted them
    rig = tcpadapt.ServerRig(tls, conns, handshakes=tls, gone=gone, wirelog=rng.random() < 0.5)
    tr = []
    kern = {c: 0 for c in conns}
    names = ERRNOS + (["SSLEOF"] if tls else [])

    def outc(kind):
        r = rng.random()
        if r < 0.25:
            # a server side handshake can also fail with any other TLS error: aborted just the same
            return ["fault", rng.choice(names + (["SSLERR", "SSLERR"] if kind == "hs" else []))]
        if kind == "tail":
            return rng.choice([["block"], ["block"], ["eof"]])
        if kind == "hs":
            return rng.choice([["ok"], ["ok"], ["block"]] + ([["blockw"]] if tls else []))
        return rng.choice([["acc", 1], ["acc", 9], ["block"]] + ([["blockw"]] if tls else []))
    try:
        def observe():
            obs = []
            for k in conns:
                o = rig.obs(k)
                obs.append({"hs": o["hs"], "wire": len(o["wire"]), "ntx": len(o["txbs"] or b""), "rx": len(o["rxbs"] or b""),
                            "cutoff": bool(o["cutoff"])})
            return obs
        tr.append({"op": "accept", "c": 0, "a": [c in gone for c in conns], "obs": observe(), "raised": bool(rig.err),
                   "err": ("accepting connections (peers %s had reset) raised %s" % (gone, rig.err)) if rig.err else None})
        if rig.err:
            return tr
        for _ in range(steps):
            r = rng.random()
            c = rng.choice(conns)
            if r < 0.25:
                n = rng.choice([1, 2])
                e = {"op": "tx", "c": c, "a": [n]}
            elif r < 0.45:
                n = 2
                e = {"op": "peersend", "c": c, "a": [n]}
                kern[c] += n
            else:
                plan = []
                for k in conns:
                    rm, st = rig.remoter(k)
                    avail = len(rig.f[k].inbox)
                    plan.append({"hs": outc("hs") if tls else ["ok"], "m": rng.randint(0, avail), "sz": rng.choice([1, 2]),
                                 "tail": outc("tail"), "out": outc("out")})
                e = {"op": "pass", "c": 0, "a": plan}
            err = rig.apply(e)
            obs = []
            for k in conns:
                o = rig.obs(k)
                obs.append({"hs": o["hs"], "wire": len(o["wire"]), "ntx": len(o["txbs"] or b""), "rx": len(o["rxbs"] or b""),
                            "cutoff": bool(o["cutoff"])})
                # content check (order / duplication) is done here, lengths go to the trace
                if o["wire"] != tcpadapt.data(0, len(o["wire"])) or (o["rxbs"] is not None and o["rxbs"] != tcpadapt.data(0, len(o["rxbs"]))):
                    err = err or "bytes of connection %d out of order: wire %r rx %r" % (k, o["wire"], o["rxbs"])
            e.update(obs=obs, raised=bool(err), err=err)
            tr.append(e)
            if err:
                break
    finally:
        rig.close()
    return tr


def run(ctx):
    inv = ["Conservation", "LogExact", "RxConservation", "NeverRaised"]
    props = ["SendProgress", "FaultCutsOff", "AbortedStays", "SiblingUntouched"]
    for tls in (False, True):
        r = ctx.tlc("tcp", "Conn", core.cfg_text(constants=consts(tls, 5 if ctx.quick else 6, 4, conns=(1, 2), hs=tls),
                                                 invariants=inv, properties=props, view="MCView"))
        for v in r.violated:
            ctx.violation("the model violates %s" % v, {"tlc": r.out[-4000:]})
        # S->C endpoint level.  A pending server side handshake is serviced by the server (server level below), so the
        # RemoterTls endpoint is driven with its handshake done; ClientTls does its own handshake in serviceConnect().
        kinds = (("clienttls", True), ("remotertls", False)) if tls else (("client", False), ("remoter", False))
        for kind, hsflag in kinds:
            hs = ctx.tlc("tcp", "ConnGen", core.cfg_text(constants=consts(tls, 3, 4, hs=hsflag), constraints=["Dump"]),
                         workers=1).tagged_json("BH")
            nsim, dep = (40, 8) if ctx.quick else (1500, 12)
            hs += ctx.tlc("tcp", "ConnGen", core.cfg_text(constants=consts(tls, dep, 8, hs=hsflag), constraints=["Dump"]),
                          workers=1, simulate="num=%d" % nsim, depth=dep + 2).tagged_json("BH")
            hs = [h for h in hs if has_fault(h)]
            if len(hs) < 200:
                raise core.MachineryError("too few behaviours with a fault: %d" % len(hs))
            for i, h in enumerate(hs):
                for f in faults_for(kind):
                    hc = concretise(h, f)
                    ctx.case((kind, f, tuple((e["op"], str(e["a"])) for e in h)),
                             {"endpoint": kind, "fault": f, "steps": [(e["op"], e["a"]) for e in hc]} if i == 11 and f == "EPIPE" else None)
                    bad = replay(kind, hc, hsflag)
                    if bad:
                        ctx.violation("%s, fault %s: %s" % (kind, f, bad), {"kind": kind, "behaviour": hc, "handshakes": hsflag})
        # C->S server level
        rng = random.Random(ctx.seed * 2 + int(tls))
        ntr, steps = (250, 14) if ctx.quick else (6000, 24)
        traces = [random_trace(rng, tls, 3, steps) for _ in range(ntr)]
        tconst = {"Conns": {1, 2, 3}, "TxSizes": {1, 2}, "Accepts": {1, 9}, "PeerSizes": {2}, "ChunkSizes": {1, 2},
                  "Faults": set(ERRNOS + ["SSLEOF"]), "MaxBytes": 1000, "MaxOps": 1000, "Tls": tls, "WithPass": True, "Handshakes": tls}
        res = core.validate_traces(ctx, "tcp", "ConnTrace",
                                   core.cfg_text(spec="TSpec", constants=tconst, constraints=["Progress"],
                                                 invariants=["Conservation", "RxConservation", "NeverRaised"]),
                                   [[{k: v for k, v in e.items() if k != "err"} for e in tr] for tr in traces])
        for tr, v in zip(traces, res):
            ctx.traces += 1
            if v["maxl"] != len(tr) + 1:
                k = max(v["maxl"], 1)
                e = tr[k - 1]
                what = ("Server%s.service() raised %s" % ("Tls" if tls else "", e["err"])) if e.get("raised") else \
                    "observations after the call are not the model's"
                ctx.violation("server level (%s), event %d %s plan %s: %s; observed %s" % (
                    "TLS" if tls else "plain", k, e["op"], e["a"], what, e["obs"]), {"server_trace": tr[:k], "tls": tls})
        if res and res[0]["violated"]:
            ctx.violation("invariant violated on a real server trace: %s" % res[0]["violated"], {"tls": tls})
        ctx.samples.append({"server_trace_head": [{k: e[k] for k in ("op", "c", "a")} for e in traces[0][:3]]})
    ctx.exhaustive = True
    return ctx.finish(rule="endpoint level: one case per (class, concrete fault, behaviour with at least one fault); server level: one "
                           "trace per random execution (3 connections, 14/24 events, a quarter of all syscall answers are faults)",
                      assumptions=["faults are injected by scripted fake sockets raising OSError(errno) / ssl.SSLEOFError exactly as "
                                   "the socket and ssl modules construct them (args[0] = errno / SSL_ERROR_EOF)",
                                   "real peer close / RST over loopback is exercised by the thorough tier of C11's real-socket run only"])


def replay_case(ctx, case):
    if "behaviour" in case:
        bad = replay(case["kind"], case["behaviour"], case.get("handshakes", False))
        return [bad] if bad else []
    # server level: re-run the recorded plans on a fresh real server
    tr, tls = case["server_trace"], case["tls"]
    rig = tcpadapt.ServerRig(tls, [1, 2, 3], handshakes=tls)
    try:
        for k, e in enumerate(tr):
            err = rig.apply(e)
            if err:
                return ["event %d %s: Server.service() raised %s" % (k + 1, e["op"], err)]
    finally:
        rig.close()
    return []
