"""Adapters that drive hio's real TCP endpoint classes and servers along behaviours of specs/tcp/Conn.tla."""
import errno

from . import core, fakesock

KINDS = ("client", "clienttls", "remoter", "remotertls")


def byte(i):
    return (i * 37 + 11) % 256


def data(a, n):
    return bytes(byte(i) for i in range(a, a + n))


def classes():
    from hio.core.tcp import clienting, serving

    class ClientTlsNoWrap(clienting.ClientTls):
        def wrap(self):
            pass

    class RemoterTlsNoWrap(serving.RemoterTls):
        def wrap(self):
            pass

    return clienting, serving, ClientTlsNoWrap, RemoterTlsNoWrap


_CTX = {}


def ctx(server):
    """one shared ssl context per side (never used for I/O: wrap() is overridden): creating one per object costs 20-40 ms"""
    import ssl
    if server not in _CTX:
        c = ssl.SSLContext(ssl.PROTOCOL_TLS_SERVER if server else ssl.PROTOCOL_TLS_CLIENT)
        if not server:
            c.check_hostname = False
        c.verify_mode = ssl.CERT_NONE
        _CTX[server] = c
    return _CTX[server]


def plan_of(out, tls):
    """spec outcome -> FakeConn plan entry"""
    if out[0] == "acc":
        return int(out[1])
    if out[0] == "ok":
        return "ok"
    if out[0] == "block":
        return "block"
    if out[0] == "blockw":
        return "blockw"
    if out[0] in ("fault",):
        return ("fault", out[1])
    if out[0] == "eof":
        return "eof"
    raise ValueError(out)


def mkwl():
    from hio.core import wiring
    wl = wiring.WireLog(rxed=True, txed=True, samed=False, filed=False, fmt=b'%(data)b')
    wl.reopen()
    return wl


class Endpoint:
    """one real endpoint object on a FakeConn"""

    def __init__(self, kind, handshakes=False):
        from hio.base import tyming
        clienting, serving, CT, RT = classes()
        self.kind = kind
        self.tls = kind.endswith("tls")
        self.tymist = tyming.Tymist()
        self.wl = mkwl()
        self.f = fakesock.FakeConn(tls=self.tls)
        self.q = 0
        self.pin = 0
        self.alt = 0          # alternates between equivalent entry points of the endpoint
        if kind == "client":
            self.ep = clienting.Client(tymth=self.tymist.tymen(), wl=self.wl)
            self.ep.cs, self.ep.opened, self.ep.accepted = self.f, True, True
        elif kind == "clienttls":
            self.ep = CT(tymth=self.tymist.tymen(), wl=self.wl, context=ctx(False))
            self.ep.cs, self.ep.opened, self.ep.accepted = self.f, True, True
            self.ep.connected = not handshakes
        elif kind == "remoter":
            self.ep = serving.Remoter(tymth=self.tymist.tymen(), ha=self.f.ha, ca=self.f.ca, cs=self.f, wl=self.wl)
        else:
            self.ep = RT(tymth=self.tymist.tymen(), ha=self.f.ha, ca=self.f.ca, cs=self.f, wl=self.wl, context=ctx(True))
            self.ep.connected = not handshakes

    def apply(self, e):
        """apply one spec event; exceptions escaping the real call are returned as text"""
        op, a = e["op"], e["a"]
        try:
            with core.watchdog():
                if op == "tx":
                    self.ep.tx(data(self.q, a[0]))
                    self.q += a[0]
                elif op == "peersend":
                    self.f.inbox.extend(data(self.pin, a[0]))
                    self.pin += a[0]
                elif op == "send":
                    self.f.sendplan = [plan_of(a, self.tls)]
                    self.alt += 1
                    if self.kind.startswith("client") and self.ep.connected and self.alt % 2:
                        # the same through the client's whole service entry point, with nothing to read
                        self.f.script_recv(0, 1, "block")
                        self.ep.service()
                        self.f.budget = None
                    else:
                        self.ep.serviceSends()
                    self.f.sendplan = []
                elif op == "recv":
                    self.f.script_recv(a[0], a[1], plan_of(a[2], self.tls))
                    self.alt += 1
                    if self.alt % 2 and (a[0] == 0 or (a[0] <= a[1] and a[2][0] == "block")):
                        self.ep.serviceReceiveOnce()       # one recv() call does it: the single-shot entry point
                    else:
                        self.ep.serviceReceives()
                    self.f.budget = None
                elif op == "handshake":
                    self.f.hsplan = [plan_of(a, True)]
                    if self.kind == "clienttls":
                        self.ep.serviceConnect()
                    else:
                        self.ep.handshake()
                    self.f.hsplan = []
                elif op == "again" and self.kind in ("client", "clienttls"):
                    # Client.service() once more after a cut-off / aborted handshake; a new attempt to connect gets its
                    # socket from a scripted socket module (the first attempt waits, the second is accepted)
                    clienting = classes()[0]
                    mod = fakesock.FakeSocketModule(ha=self.ep.ha)
                    mod.tls = self.tls
                    saved = clienting.socket
                    clienting.socket = mod
                    try:
                        for res in (errno.EINPROGRESS, 0):
                            mod.next_connect = res
                            self.ep.service()
                    finally:
                        clienting.socket = saved
        except core.Hang:
            return "did not return"
        except Exception as ex:
            return "%s: %s" % (type(ex).__name__, ex)
        return None

    def hs(self):
        if not self.tls:
            return "done"
        if self.ep.connected:
            return "done"
        if self.kind == "remotertls":
            return "aborted" if self.ep.aborted else "pending"
        return "aborted" if (self.ep.cs is None or self.f.closed) else "pending"

    def obs(self):
        return {"txbs": bytes(self.ep.txbs), "wire": bytes(self.f.wire), "log": self.wl.readTx() or b"",
                "rxbs": bytes(self.ep.rxbs), "rlog": self.wl.readRx() or b"", "cutoff": bool(self.ep.cutoff), "hs": self.hs()}


def expect(o, q, pin):
    """model observation -> expected concrete observation (q, pin: bytes queued / sent by the peer so far)"""
    return {"txbs": data(o["wire"], o["ntx"]), "wire": data(0, o["wire"]), "log": data(0, o["log"]),
            "rxbs": data(0, o["rx"]), "rlog": data(0, o["rlog"]), "cutoff": o["cutoff"], "hs": o["hs"]}


def diff(real, want, fields):
    for f in fields:
        if real[f] != want[f]:
            return f, real[f], want[f]
    return None


class ServerRig:
    """a real tcp Server / ServerTls on a fake listen socket with the model's connections"""

    def __init__(self, tls, conns, handshakes, gone=(), wirelog=False):
        from hio.base import tyming
        clienting, serving, CT, RT = classes()
        self.tls = tls
        self.tymist = tyming.Tymist()
        self.wl = mkwl() if wirelog else None     # content is C09's subject; here it only has to be harmless
        self.listen = fakesock.FakeListen(ha=("127.0.0.1", 56000))
        if tls:
            # ServerTls builds RemoterTls objects itself: their wrap() is replaced for the life of this rig so that the
            # scripted socket is used as is (a subclass cannot be swapped in: hio's super(RemoterTls, self) calls name the global)
            real_wrap = serving.RemoterTls.wrap
            serving.RemoterTls.wrap = lambda self_: None
            self._restore = lambda: setattr(serving.RemoterTls, "wrap", real_wrap)
            self.srv = serving.ServerTls(host="127.0.0.1", port=56000, tymth=self.tymist.tymen(), context=ctx(True), wl=self.wl)
        else:
            self.srv = serving.Server(host="127.0.0.1", port=56000, tymth=self.tymist.tymen(), wl=self.wl)
            self._restore = lambda: None
        self.srv.ss = self.listen
        self.srv.opened = True
        self.f = {}
        self.q = {}
        self.pin = {}
        for c in conns:
            f = fakesock.FakeConn(ca=("127.0.0.1", 50000 + int(c)), ha=("127.0.0.1", 56000), tls=tls)
            if tls:
                f.hsplan = ["block"] if handshakes else ["ok"]
            f.peer_gone = c in gone
            self.f[c], self.q[c], self.pin[c] = f, 0, 0
            self.listen.pending.append(f)
        self.err = None
        try:
            self.srv.service()          # accepts every connection (TLS: first handshake attempt per the plan above)
        except Exception as ex:
            self.err = "%s: %s" % (type(ex).__name__, ex)
        for f in self.f.values():
            f.hsplan = []

    def close(self):
        self._restore()

    def remoter(self, c):
        ca = self.f[c].ca
        if ca in self.srv.ixes:
            return self.srv.ixes[ca], "done"
        if self.tls and ca in self.srv.cxes:
            return self.srv.cxes[ca], "pending"
        return None, "aborted"

    def apply(self, e):
        op, a = e["op"], e["a"]
        try:
            with core.watchdog():
                if op == "tx":
                    c = e["c"]
                    rm, st = self.remoter(c)
                    if rm is not None:
                        rm.tx(data(self.q[c], a[0]))
                    self.q[c] += a[0]
                elif op == "peersend":
                    c = e["c"]
                    self.f[c].inbox.extend(data(self.pin[c], a[0]))
                    self.pin[c] += a[0]
                elif op == "pass":
                    for c, pl in self.plan_items(a):
                        f = self.f[c]
                        f.hsplan = [plan_of(pl["hs"], True)]
                        f.script_recv(pl["m"], pl["sz"], plan_of(pl["tail"], self.tls))
                        f.sendplan = [plan_of(pl["out"], self.tls)]
                    try:
                        self.passes = getattr(self, "passes", 0) + 1
                        if self.passes % 3 == 0:
                            # the same pass through the per-connection entry point an application may use instead
                            self.srv.serviceConnects()
                            for ca in list(self.srv.ixes):
                                if ca in self.srv.ixes:
                                    self.srv.serviceReceivesIx(ca)
                            self.srv.serviceSendsAllIx()
                        else:
                            self.srv.service()
                    finally:
                        for f in self.f.values():
                            f.hsplan, f.sendplan, f.budget = [], [], None
        except core.Hang:
            return "did not return"
        except Exception as ex:
            return "%s: %s" % (type(ex).__name__, ex)
        return None

    def plan_items(self, a):
        if isinstance(a, dict):
            return [(int(k), v) for k, v in a.items()]
        return [(i + 1, v) for i, v in enumerate(a)]

    def obs(self, c):
        rm, st = self.remoter(c)
        f = self.f[c]
        if rm is None:
            return {"txbs": None, "wire": bytes(f.wire), "rxbs": None, "cutoff": None, "hs": st}
        return {"txbs": bytes(rm.txbs), "wire": bytes(f.wire), "rxbs": bytes(rm.rxbs), "cutoff": bool(rm.cutoff), "hs": st}


class ServerEndpoint:
    """the server side of one connection as a real Server / ServerTls builds and services it (accepted from a scripted
    listen socket, given the server's wire log): same interface as Endpoint, every step is one Server.service() pass"""

    def __init__(self, kind):
        self.kind = kind
        self.tls = kind == "servertls"
        self.rig = ServerRig(self.tls, (1,), handshakes=False, wirelog=True)
        if self.rig.err:
            raise core.MachineryError("server rig: %s" % self.rig.err)

    def apply(self, e):
        op, a = e["op"], e["a"]
        idle = {"hs": ["ok"], "m": 0, "sz": 1, "tail": ["block"], "out": ["block"]}
        if op in ("tx", "peersend"):
            return self.rig.apply(dict(e, c=1))
        if op == "send":
            # a pass with a would-block send when there is nothing to send: the model's SendEff is the identity then
            return self.rig.apply({"op": "pass", "a": [dict(idle, out=a)]})
        if op == "recv":
            return self.rig.apply({"op": "pass", "a": [dict(idle, m=a[0], sz=a[1], tail=a[2])]})
        if op == "again":
            return self.rig.apply({"op": "pass", "a": [idle]})
        return None

    def obs(self):
        o = self.rig.obs(1)
        wl = self.rig.wl
        return dict(o, log=wl.readTx() or b"", rlog=wl.readRx() or b"")

    def close(self):
        self.rig.close()
