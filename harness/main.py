import argparse
import importlib
import os
import sys
import traceback

from . import core


def main():
    ap = argparse.ArgumentParser()
    ap.add_argument("prop")
    ap.add_argument("--tier", default=os.environ.get("VERIF_TIER", "quick"), choices=["quick", "thorough"])
    ap.add_argument("--replay", default=None)
    a = ap.parse_args()
    seed = int(os.environ.get("VERIF_SEED", "0") or 0)
    ctx = None
    try:
        core.import_tree()
        mod = importlib.import_module("harness.props.%s" % a.prop.lower())
        ctx = core.Ctx(a.prop, a.tier, seed)
        ctx.replay = a.replay
        rc = mod.run(ctx)
    except core.MachineryError as ex:
        print("MACHINERY-FAILURE: %s" % ex)
        rc = 2
    except Exception:
        traceback.print_exc()
        print("MACHINERY-FAILURE: unexpected exception in harness")
        rc = 2
    if rc == 2 and ctx is not None and ctx.violations:
        # violations already reported stay reported: the property is broken whatever happened afterwards
        ctx.note("harness stopped early after reporting violations")
        rc = ctx.finish(rule="(run stopped early)")
    sys.stdout.flush()
    sys.exit(rc)


if __name__ == "__main__":
    main()
