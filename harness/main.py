import argparse
import importlib
import json
import os
import sys
import traceback

from . import core

# which projections of sched.compare() each scheduler-family property reads (see harness/props/*)
SCHED_KEYS = {"C01": ["C01"], "C02": ["C02"], "C03": ["C03"], "C05": ["C05"], "C06": ["C06"],
              "C30": ["full", "C01", "C02", "C03", "C05"]}


def replay_file(ctx, mod, path):
    """./check <id> --replay <path>: run the recorded case again on the current tree.
    exit 1 + VIOLATION line if it still fails, 0 if the property now holds on it, 2 if the case kind is unknown."""
    obj = json.load(open(path))
    case = obj.get("case", obj)
    print("replaying %s: %s" % (path, obj.get("what", "")))
    if hasattr(mod, "replay_case"):
        bad = mod.replay_case(ctx, case)
    elif ctx.prop in SCHED_KEYS and isinstance(case, dict) and "behaviour" in case and "config" in case:
        from . import sched
        real = sched.replay(case["config"], case["behaviour"], q=case.get("q", 0.25), mode="do" if case.get("mode", "do") == "do+release" else case.get("mode", "do"),
                            flavours=(case.get("real") or {}).get("flav"), style=case.get("style", "ctor"), off=case.get("off", 0),
                            release=case.get("mode") == "do+release")
        cmpd = sched.compare(case["config"], case["behaviour"], real)
        bad = [m for k in SCHED_KEYS[ctx.prop] for m in cmpd[k]]
    else:
        print("MACHINERY-FAILURE: this replay file does not hold a re-runnable case (model-level finding); rerun the check")
        return 2
    if bad:
        print("VIOLATION property=%s replay=%s" % (ctx.prop, path))
        print("  what: %s" % bad[0])
        return 1
    print("replay: the property holds on this case on the current tree")
    return 0


def main():
    ap = argparse.ArgumentParser()
    ap.add_argument("prop")
    ap.add_argument("--tier", default=os.environ.get("VERIF_TIER", "quick"), choices=["quick", "thorough"])
    ap.add_argument("--replay", default=None)
    a = ap.parse_args()
    seed = int(os.environ.get("VERIF_SEED", "0") or 0)
    ctx = None
    try:
        core.import_tree()
        mod = importlib.import_module("harness.props.%s" % a.prop.lower())
        ctx = core.Ctx(a.prop, a.tier, seed)
        ctx.replay = a.replay
        core.stall_guard(a.prop)
        if a.replay:
            rc = replay_file(ctx, mod, a.replay)
        else:
            rc = mod.run(ctx)
    except core.StopEarly as ex:
        ctx.note("stopped exploring early: %s (the cap is core.MAX_VIOLATIONS)" % ex)
        rc = ctx.finish(rule="(run stopped early after reporting violations)")
    except core.MachineryError as ex:
        print("MACHINERY-FAILURE: %s" % ex)
        rc = 2
    except Exception:
        traceback.print_exc()
        print("MACHINERY-FAILURE: unexpected exception in harness")
        rc = 2
    if rc == 2 and ctx is not None and ctx.violations:
        # violations already reported stay reported: the property is broken whatever happened afterwards
        ctx.note("harness stopped early after reporting violations")
        rc = ctx.finish(rule="(run stopped early)")
    sys.stdout.flush()
    sys.exit(rc)


if __name__ == "__main__":
    main()
