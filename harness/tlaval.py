"""Tiny reader/writer for TLA+ values as printed by TLC and as needed in generated modules.

parse(text) -> python value:
  <<a, b>>            -> list
  {a, b}              -> frozenset (elements must be hashable: tuples used for nested seqs)
  [k |-> v, ...]      -> dict
  (k :> v @@ ...)     -> dict
  "str" / 12 / TRUE   -> str / int / bool
  ident               -> str (model value)
to_tla(value) -> TLA+ source text for a python value (lists -> sequences, dict -> record/function,
  set/frozenset -> set, str -> string, bool, int).
"""
import json


class P:
    def __init__(self, s):
        self.s = s
        self.i = 0

    def ws(self):
        s = self.s
        while self.i < len(s) and s[self.i] in " \t\r\n":
            self.i += 1

    def peek(self, tok):
        self.ws()
        return self.s.startswith(tok, self.i)

    def eat(self, tok):
        self.ws()
        if not self.s.startswith(tok, self.i):
            raise ValueError("expected %r at %d: %r" % (tok, self.i, self.s[self.i:self.i + 40]))
        self.i += len(tok)

    def value(self):
        self.ws()
        s = self.s
        c = s[self.i]
        if s.startswith("<<", self.i):
            self.i += 2
            out = []
            if self.peek(">>"):
                self.eat(">>")
                return out
            while True:
                out.append(self.value())
                if self.peek(","):
                    self.eat(",")
                    continue
                self.eat(">>")
                return out
        if c == "{":
            self.i += 1
            out = []
            if self.peek("}"):
                self.eat("}")
                return frozenset()
            while True:
                out.append(freeze(self.value()))
                if self.peek(","):
                    self.eat(",")
                    continue
                self.eat("}")
                return frozenset(out)
        if c == "[":
            self.i += 1
            out = {}
            if self.peek("]"):
                self.eat("]")
                return out
            while True:
                self.ws()
                j = self.i
                while s[j].isalnum() or s[j] == "_":
                    j += 1
                key = s[self.i:j]
                self.i = j
                self.eat("|->")
                out[key] = self.value()
                if self.peek(","):
                    self.eat(",")
                    continue
                self.eat("]")
                return out
        if c == "(":
            self.i += 1
            out = {}
            while True:
                k = self.value()
                self.eat(":>")
                v = self.value()
                out[freeze(k)] = v
                if self.peek("@@"):
                    self.eat("@@")
                    continue
                self.eat(")")
                return out
        if c == '"':
            j = self.i + 1
            buf = []
            while s[j] != '"':
                if s[j] == "\\":
                    j += 1
                    buf.append({"n": "\n", "t": "\t", "r": "\r", "f": "\f"}.get(s[j], s[j]))
                else:
                    buf.append(s[j])
                j += 1
            self.i = j + 1
            return "".join(buf)
        if c.isdigit() or (c == "-" and s[self.i + 1].isdigit()):
            j = self.i + 1
            while j < len(s) and s[j].isdigit():
                j += 1
            v = int(s[self.i:j])
            self.i = j
            return v
        j = self.i
        while j < len(s) and (s[j].isalnum() or s[j] == "_"):
            j += 1
        if j == self.i:
            raise ValueError("bad value at %d: %r" % (self.i, s[self.i:self.i + 40]))
        w = s[self.i:j]
        self.i = j
        if w == "TRUE":
            return True
        if w == "FALSE":
            return False
        return w


def freeze(v):
    if isinstance(v, list):
        return tuple(freeze(x) for x in v)
    if isinstance(v, dict):
        return tuple(sorted((k, freeze(x)) for k, x in v.items()))
    return v


def parse(text):
    p = P(text)
    v = p.value()
    p.ws()
    if p.i != len(p.s):
        raise ValueError("trailing text: %r" % p.s[p.i:p.i + 40])
    return v


def to_tla(v):
    if isinstance(v, bool):
        return "TRUE" if v else "FALSE"
    if isinstance(v, int):
        return str(v)
    if isinstance(v, str):
        return json.dumps(v)
    if isinstance(v, (list, tuple)):
        return "<<" + ", ".join(to_tla(x) for x in v) + ">>"
    if isinstance(v, (set, frozenset)):
        return "{" + ", ".join(sorted(to_tla(x) for x in v)) + "}"
    if isinstance(v, dict):
        if not v:
            return "<<>>"
        if all(isinstance(k, str) and k.isidentifier() for k in v):
            return "[" + ", ".join("%s |-> %s" % (k, to_tla(x)) for k, x in v.items()) + "]"
        return "(" + " @@ ".join("%s :> %s" % (to_tla(k), to_tla(x)) for k, x in v.items()) + ")"
    if v is None:
        return '"None"'
    raise TypeError(type(v))
