"""Real hio HTTP servers and clients on scripted sockets (harness/fakesock.py)."""
from . import core, fakesock, tcpadapt


def ok_app(environ, start_response):
    start_response('200 OK', [('Content-Type', 'text/plain'), ('Content-Length', '2')])
    return [b"ok"]


class HttpServerRig:
    """http.Server (WSGI) or http.BareServer over a fake listen socket with n scripted connections"""

    def __init__(self, flavour="wsgi", nconn=2, app=None, tymeout=0.0, tymist=None):
        from hio.base import tyming
        from hio.core import http
        self.tymist = tymist or tyming.Tymist(tyme=0.0)
        if flavour == "bare":
            self.srv = http.BareServer(host="127.0.0.1", port=56000, timeout=tymeout, tymth=self.tymist.tymen())
        else:
            self.srv = http.Server(host="127.0.0.1", port=56000, app=app or ok_app, tymeout=tymeout, tymth=self.tymist.tymen())
        self.listen = fakesock.FakeListen(ha=("127.0.0.1", 56000))
        self.srv.servant.ss = self.listen
        self.srv.servant.opened = True
        self.f = {}
        for c in range(1, nconn + 1):
            f = fakesock.FakeConn(ca=("127.0.0.1", 50000 + c), ha=("127.0.0.1", 56000))
            self.f[c] = f
            self.listen.pending.append(f)
        self.srv.service()          # accept

    def feed(self, c, data, eof=False):
        self.f[c].inbox.extend(data)
        if eof:
            self.f[c].script_recv(len(self.f[c].inbox), 1 << 16, "eof")

    def service(self, n=1):
        for _ in range(n):
            self.srv.service()
            self.tymist.tick()

    def take(self, c):
        """bytes the server has sent on c since the last take"""
        d = bytes(self.f[c].wire)
        del self.f[c].wire[:]
        return d

    def closed(self, c):
        return self.f[c].closed


class HttpClientRig:
    """a real http.Client whose tcp connectors get scripted sockets (the `socket` module of hio.core.tcp.clienting is
    replaced for the life of the rig), and a scripted peer that answers the requests it sees on whichever socket the
    client currently uses"""

    def __init__(self, secure=False, make="scheme"):
        """make: "scheme" - Client(hostname, port, scheme); "connector" - the application builds the tcp connector itself
        and gives no scheme (the Client takes it from the connector's class)"""
        from hio.base import tyming
        from hio.core import http
        from hio.core.tcp import clienting
        self.clienting = clienting
        self.mod = fakesock.FakeSocketModule(ha=("127.0.0.1", 8080))
        self.mod.tls = secure
        self.saved = [(clienting, "socket", clienting.socket)]
        clienting.socket = self.mod
        if True:
            real_wrap = clienting.ClientTls.wrap
            clienting.ClientTls.wrap = lambda self_: None
            self.saved.append((clienting.ClientTls, "wrap", real_wrap))
        self.tymist = tyming.Tymist(tyme=0.0)
        kw = dict(context=tcpadapt.ctx(False)) if secure else {}
        if make == "connector":
            cls = clienting.ClientTls if secure else clienting.Client
            conn = cls(tymth=self.tymist.tymen(), host="127.0.0.1", port=8080, **kw)
            self.cli = http.Client(connector=conn, tymth=self.tymist.tymen())
        else:
            self.cli = http.Client(hostname="127.0.0.1", port=8080, scheme="https" if secure else "http",
                                   tymth=self.tymist.tymen(), **kw)
        self.cli.reopen()
        self.seen = []          # (host address the request went to, request line, headers dict) in the order the peer saw them
        self.parsed = {}        # id(fake socket) -> bytes already parsed

    def restore(self):
        for obj, name, val in reversed(self.saved):
            setattr(obj, name, val)

    def sock(self):
        return self.cli.connector.cs

    def new_requests(self):
        """complete requests that appeared on the current socket since the last call"""
        s = self.sock()
        if s is None:
            return []
        k = id(s)
        done = self.parsed.get(k, 0)
        buf = bytes(s.wire[done:])
        out = []
        while b"\r\n\r\n" in buf:
            head, _, rest = buf.partition(b"\r\n\r\n")
            lines = head.split(b"\r\n")
            hdrs = {}
            for ln in lines[1:]:
                a, _, b = ln.partition(b":")
                hdrs[a.strip().lower().decode()] = b.strip().decode()
            n = int(hdrs.get("content-length", "0"))
            if len(rest) < n:
                break
            out.append({"to": s.ca, "line": lines[0].decode(), "headers": hdrs, "body": rest[:n]})
            consumed = len(head) + 4 + n
            done += consumed
            buf = buf[consumed:]
        self.parsed[k] = done
        self.seen.extend(out)
        return out

    def answer(self, data):
        self.sock().inbox.extend(data)

    def service(self):
        self.cli.service()
        self.tymist.tick()
