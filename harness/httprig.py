"""Real hio HTTP servers and clients on scripted sockets (harness/fakesock.py)."""
from . import core, fakesock, tcpadapt


def ok_app(environ, start_response):
    start_response('200 OK', [('Content-Type', 'text/plain'), ('Content-Length', '2')])
    return [b"ok"]


class HttpServerRig:
    """http.Server (WSGI) or http.BareServer over a fake listen socket with n scripted connections"""

    def __init__(self, flavour="wsgi", nconn=2, app=None, tymeout=0.0, tymist=None):
        from hio.base import tyming
        from hio.core import http
        self.tymist = tymist or tyming.Tymist(tyme=0.0)
        if flavour == "bare":
            self.srv = http.BareServer(host="127.0.0.1", port=56000, timeout=tymeout, tymth=self.tymist.tymen())
        else:
            self.srv = http.Server(host="127.0.0.1", port=56000, app=app or ok_app, tymeout=tymeout, tymth=self.tymist.tymen())
        self.listen = fakesock.FakeListen(ha=("127.0.0.1", 56000))
        self.srv.servant.ss = self.listen
        self.srv.servant.opened = True
        self.f = {}
        for c in range(1, nconn + 1):
            f = fakesock.FakeConn(ca=("127.0.0.1", 50000 + c), ha=("127.0.0.1", 56000))
            self.f[c] = f
            self.listen.pending.append(f)
        self.srv.service()          # accept

    def feed(self, c, data, eof=False):
        self.f[c].inbox.extend(data)
        if eof:
            self.f[c].script_recv(len(self.f[c].inbox), 1 << 16, "eof")

    def service(self, n=1):
        for _ in range(n):
            self.srv.service()
            self.tymist.tick()

    def take(self, c):
        """bytes the server has sent on c since the last take"""
        d = bytes(self.f[c].wire)
        del self.f[c].wire[:]
        return d

    def closed(self, c):
        return self.f[c].closed
