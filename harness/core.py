"""Shared machinery: context, TLC runner/output parser, evidence writer, known findings.

Exit codes of ./check: 0 held, 1 violation (VIOLATION line printed), 2 machinery failure.
"""
import atexit
import hashlib
import json
import os
import re
import shutil
import subprocess
import sys
import tempfile
import time

from . import tlaval

VERIF = os.path.dirname(os.path.dirname(os.path.abspath(__file__)))
SPECS = os.path.join(VERIF, "specs")
# The tree under test. Always /repo/src for the registered commands; tools/seedtest.py points the checks at a scratch
# copy (outside /repo and /verif) through HIO_VERIF_SRC so that /repo itself is never modified by seed testing.
REPO_SRC = os.path.abspath(os.environ.get("HIO_VERIF_SRC") or "/repo/src")
MAX_VIOLATIONS = int(os.environ.get("HIO_VERIF_MAXVIOL") or 8)      # a check stops (exit 1) as soon as it has reported this many violations
WATCHDOG_S = 5.0        # a call into the real code that has not returned by then is the observable outcome "hang"
TLA_CP = "/opt/veriftools/tla/tla2tools.jar:/opt/veriftools/tla/CommunityModules-deps.jar"


def scratch_dir(prefix):
    """scratch directory for real files of the code under test (LMDB environments, Filer trees): on tmpfs when there is
    one, so that fsync() of the real code cannot stall a replay when the machine is busy"""
    base = "/dev/shm" if os.path.isdir("/dev/shm") and os.access("/dev/shm", os.W_OK) else None
    return tempfile.mkdtemp(prefix=prefix, dir=base)


class MachineryError(Exception):
    pass


class StopEarly(Exception):
    """enough violations have been reported: the check stops exploring and finishes with exit 1"""


class TlcResult:
    def __init__(self, out, code, wall):
        self.out = out
        self.code = code
        self.wall = wall
        self.generated = 0
        self.distinct = 0
        self.violated = []      # names of violated invariants / properties
        self.other_errors = []  # any other "Error:" line
        self.prints = []        # parsed PrintT values that are tuples whose head is a string tag
        m = None
        for m in re.finditer(r"(\d+) states generated, (\d+) distinct states found", out):
            pass
        if m:
            self.generated, self.distinct = int(m.group(1)), int(m.group(2))
        else:
            m = re.search(r"The number of states generated: (\d+)", out)
            if m:
                self.generated = self.distinct = int(m.group(1))
        for line in out.splitlines():
            if line.startswith("Error:"):
                mm = re.match(r"Error: (?:Invariant|Action property|Temporal property|Property) (.+?) is violated", line)
                if mm:
                    self.violated.append(mm.group(1).rstrip("."))
                elif "Temporal properties were violated" in line:
                    self.violated.append("<temporal>")
                elif "Deadlock reached" in line:
                    self.violated.append("<deadlock>")
                elif "The behavior up to this point is" in line or "The following behavior constitutes" in line:
                    pass
                else:
                    self.other_errors.append(line)

    def tagged(self, tag):
        """parsed PrintT tuples <<tag, ...>> (parsed lazily)"""
        pre = '<<"%s", ' % tag
        res = []
        for line in self.out.splitlines():
            if line.startswith(pre) and line.endswith(">>"):
                res.append(tlaval.parse(line)[1:])
        return res

    def tagged_json(self, tag):
        """PrintT(<<tag, ToJson(x)>>) lines -> list of python objects (de-duplicated, order kept)"""
        pre = '<<"%s", ' % tag
        seen = set()
        res = []
        for line in self.out.splitlines():
            if line.startswith(pre) and line.endswith(">>"):
                if line in seen:
                    continue
                seen.add(line)
                res.append(json.loads(tlaval.parse(line)[1]))
        return res


class Ctx:
    def __init__(self, prop, tier, seed):
        self.prop = prop
        self.tier = tier
        self.seed = seed
        self.t0 = time.time()
        self.tmp = tempfile.mkdtemp(prefix="hioverif_%s_" % prop)
        atexit.register(shutil.rmtree, self.tmp, True)
        self.states = 0
        self.transitions = 0
        self.traces = 0
        self.evaluations = 0
        self.distinct = set()
        self.samples = []
        self.violations = []     # (what, replay_obj)
        self.known_hits = {}     # finding id -> what
        self.divergences = []
        self.notes = []
        self.tlc_runs = []
        self.exhaustive = None
        kf = json.load(open(os.path.join(VERIF, "known_findings.json")))
        self.findings = {f["id"]: f for f in kf.get("findings", []) if f["property"] == prop}

    quick = property(lambda self: self.tier == "quick")

    # ---- TLC -------------------------------------------------------------------------
    def tlc(self, area, module, cfg, gen=None, workers=16, env=None, simulate=None, depth=None,
            cont=False, timeout=3600, expect_violation=False, extra=()):
        """Run TLC on specs/<area>/<module>.tla with config text `cfg` (a string) in a scratch copy.
        gen: {filename: text} of generated modules (MC wrappers). Returns TlcResult.
        Raises MachineryError on parse errors / crashes / timeouts."""
        d = tempfile.mkdtemp(prefix="tlc_", dir=self.tmp)
        src = os.path.join(SPECS, area)
        for f in os.listdir(src):
            if f.endswith(".tla"):
                shutil.copy(os.path.join(src, f), d)
        for name, text in (gen or {}).items():
            with open(os.path.join(d, name), "w") as fh:
                fh.write(text)
        with open(os.path.join(d, "run.cfg"), "w") as fh:
            fh.write(cfg)
        cmd = ["java", "-XX:+UseParallelGC", "-Xmx8g", "-Djava.io.tmpdir=" + d, "-cp", TLA_CP, "tlc2.TLC", "-workers", str(workers),
               "-metadir", os.path.join(d, "meta"), "-noGenerateSpecTE", "-config", "run.cfg"]
        if simulate:
            cmd += ["-simulate", simulate]
            if depth:
                cmd += ["-depth", str(depth)]
            cmd += ["-seed", str(self.seed)]
        if cont:
            cmd.append("-continue")
        cmd += list(extra)
        cmd.append(module + ".tla")
        e = dict(os.environ)
        e.update(env or {})
        t = time.time()
        # development aid for mutation / seed campaigns (never set by the registered commands): TLC runs that do not read
        # anything from the implementation (no trace file in the environment) are a function of the specs and the config
        cache = os.environ.get("HIO_VERIF_TLC_CACHE") if not env else None
        ckey = None
        if cache:
            import hashlib
            hsh = hashlib.sha256()
            for f in sorted(os.listdir(d)):
                if f.endswith((".tla", ".cfg")):
                    hsh.update(f.encode() + b"\0" + open(os.path.join(d, f), "rb").read())
            hsh.update(repr([c for c in cmd if d not in c]).encode())
            ckey = os.path.join(cache, hsh.hexdigest())
            if os.path.exists(ckey):
                saved = json.load(open(ckey))
                r = TlcResult(saved["out"], saved["rc"], 0.0)
                self._account(r, module)
                shutil.rmtree(d, True)
                return r
        try:
            PROGRESS["external"] += 1
            try:
                p = subprocess.run(cmd, cwd=d, env=e, stdout=subprocess.PIPE, stderr=subprocess.STDOUT,
                                   timeout=timeout, text=True, errors="replace")
            finally:
                PROGRESS["external"] -= 1
                PROGRESS["t"] = time.time()
        except subprocess.TimeoutExpired as ex:
            if simulate:   # simulation is stopped by the outer timeout by design
                out = ex.stdout if isinstance(ex.stdout, str) else (ex.stdout or b"").decode(errors="replace")
                r = TlcResult(out, 0, time.time() - t)
                self._account(r, module)
                return r
            raise MachineryError("TLC timeout on %s" % module)
        r = TlcResult(p.stdout, p.returncode, time.time() - t)
        bad = r.other_errors or (p.returncode not in (0, 10, 11, 12, 13)) or \
            ("Parsing or semantic analysis failed" in p.stdout)
        if r.generated == 0 and not r.violated:
            bad = True
        if bad:
            path = self.save_replay({"tlc_output": p.stdout[-20000:], "module": module, "cfg": cfg}, "tlcfail")
            raise MachineryError("TLC failed on %s (exit %s): %s ; output in %s" %
                                 (module, p.returncode, r.other_errors[:3], path))
        self._account(r, module)
        shutil.rmtree(os.path.join(d, "meta"), True)
        if ckey:
            os.makedirs(cache, exist_ok=True)
            with open(ckey + ".tmp%d" % os.getpid(), "w") as fh:
                json.dump({"out": p.stdout, "rc": p.returncode}, fh)
            os.replace(ckey + ".tmp%d" % os.getpid(), ckey)
        return r

    def _account(self, r, module):
        self.states += r.distinct
        self.transitions += r.generated
        self.tlc_runs.append({"module": module, "distinct": r.distinct, "generated": r.generated,
                              "wall_s": round(r.wall, 2), "violated": r.violated})

    # ---- bookkeeping -----------------------------------------------------------------
    def case(self, key, sample=None):
        """count one explored case; key identifies distinct non-trivial cases"""
        self.evaluations += 1
        PROGRESS["t"] = time.time()
        if HANGS[0] > 2 * MAX_VIOLATIONS and not self.violations:
            # safety net: a hang is never a legitimate outcome, whatever the per-property oracle made of the run
            self.violation("the real code did not return within %ss in %d replays" % (WATCHDOG_S, HANGS[0]), {"hangs": HANGS[0]})
            raise StopEarly("real code hangs")
        if key is not None:
            self.distinct.add(key if isinstance(key, (str, int, tuple)) else json.dumps(key, sort_keys=True, default=str))
        if sample is not None and len(self.samples) < 5:
            self.samples.append(sample)

    def note(self, s):
        self.notes.append(s)
        print("note:", s)

    def save_replay(self, obj, kind="viol"):
        d = os.path.join(VERIF, "replays")
        os.makedirs(d, exist_ok=True)
        txt = json.dumps(obj, sort_keys=True, default=str, indent=1)
        h = hashlib.sha1(txt.encode()).hexdigest()[:10]
        path = os.path.join(d, "%s-%s-%s.json" % (self.prop, kind, h))
        with open(path, "w") as fh:
            fh.write(txt)
        return path

    def violation(self, what, replay_obj, finding=None):
        """Report a property violation. If `finding` names a listed known finding the violation is
        recorded as KNOWN-FINDING (printed once), otherwise it is a VIOLATION."""
        if finding is not None and finding in self.findings:
            if finding not in self.known_hits:
                self.known_hits[finding] = what
            return
        if len(self.violations) < max(20, MAX_VIOLATIONS):
            path = self.save_replay({"property": self.prop, "what": what, "case": replay_obj})
            self.violations.append((what, path))
            print("VIOLATION property=%s replay=%s" % (self.prop, path))
            print("  what: %s" % what)
            sys.stdout.flush()
        else:
            self.violations.append((what, None))
        if len(self.violations) >= MAX_VIOLATIONS:
            raise StopEarly("%d violations reported" % len(self.violations))

    def divergence(self, what):
        """the real run differs from the model's prediction on this property's projection, but the property itself,
        evaluated on the real run, holds: recorded (evidence + one note), not an alarm"""
        self.divergences.append(what)
        PROGRESS["t"] = time.time()

    def finish(self, level="model_checking", rule="", assumptions=(), extra=None):
        if self.divergences:
            self.note("%d runs differ from the model without breaking %s (first: %s)" %
                      (len(self.divergences), self.prop, self.divergences[0][:300]))
        for fid, what in self.known_hits.items():
            print("KNOWN-FINDING: property=%s %s: %s" % (self.prop, fid, self.findings[fid]["what"]))
        cov = {
            "states": self.states,
            "transitions": self.transitions,
            "traces_validated_against_impl": self.traces,
            "samples": self.samples or ["(none)"],
            "evaluations": self.evaluations,
            "distinct_nontrivial": len(self.distinct),
            "rule": rule,
            "tlc_runs": self.tlc_runs,
            "known_findings_hit": sorted(self.known_hits),
            "notes": self.notes,
            "model_divergences_not_violations": len(self.divergences),
        }
        if self.exhaustive is not None:
            cov["exhaustive"] = bool(self.exhaustive)
        if extra:
            cov.update(extra)
        ev = {
            "property_id": self.prop,
            "tier": self.tier,
            "seed": self.seed,
            "level": level,
            "coverage": cov,
            "assumptions": list(assumptions) + [
                "hio imported from %s (working tree) under /venv/bin/python 3.12 (generator.close() returns None)" % REPO_SRC,
                "TLC 1.8 and the TLA+ standard/Community modules are correct",
            ],
            "wall_s": round(time.time() - self.t0, 2),
            "violations": len(self.violations),
        }
        # seed testing against a scratch tree (HIO_VERIF_SRC) must not overwrite the evidence of the real tree
        evdir = os.environ.get("HIO_VERIF_EVIDENCE") or os.path.join(VERIF, "evidence")
        os.makedirs(evdir, exist_ok=True)
        with open(os.path.join(evdir, "%s.json" % self.prop), "w") as fh:
            json.dump(ev, fh, indent=1, sort_keys=True, default=str)
        print("%s tier=%s seed=%d: states=%d transitions=%d traces=%d evaluations=%d distinct=%d violations=%d known=%d wall=%.1fs" % (
            self.prop, self.tier, self.seed, self.states, self.transitions, self.traces, self.evaluations,
            len(self.distinct), len(self.violations), len(self.known_hits), time.time() - self.t0))
        return 1 if self.violations else 0


def import_tree():
    """import hio from the working tree and assert provenance"""
    for k in [k for k in sys.modules if k == "hio" or k.startswith("hio.")]:
        del sys.modules[k]
    if REPO_SRC not in sys.path:
        sys.path.insert(0, REPO_SRC)
    import hio
    if not os.path.abspath(hio.__file__).startswith(REPO_SRC + "/"):
        raise MachineryError("hio imported from %s, not the tree" % hio.__file__)
    return hio


def cfg_text(spec="Spec", constants=None, invariants=(), properties=(), constraints=(), init=None, nxt=None,
             view=None, deadlock=False, postcondition=None, action_constraints=()):
    lines = []
    if init:
        lines += ["INIT %s" % init, "NEXT %s" % nxt]
    else:
        lines.append("SPECIFICATION %s" % spec)
    if constants:
        lines.append("CONSTANTS")
        for k, v in constants.items():
            if isinstance(v, str) and v.startswith("<-"):
                lines.append("  %s %s" % (k, v))
            else:
                lines.append("  %s = %s" % (k, v if isinstance(v, str) else tlaval.to_tla(v)))
    for i in invariants:
        lines.append("INVARIANT %s" % i)
    for p in properties:
        lines.append("PROPERTY %s" % p)
    for c in constraints:
        lines.append("CONSTRAINT %s" % c)
    for c in action_constraints:
        lines.append("ACTION_CONSTRAINT %s" % c)
    if view:
        lines.append("VIEW %s" % view)
    if postcondition:
        lines.append("POSTCONDITION %s" % postcondition)
    lines.append("CHECK_DEADLOCK %s" % ("TRUE" if deadlock else "FALSE"))
    return "\n".join(lines) + "\n"


def validate_traces(ctx, area, module, cfg, traces, gen=None, lens=None, shards=None, timeout=3600):
    """Batch trace validation. `traces` is a list (JSON-serialisable); the trace spec reads it through
    IOEnv.TRACE_FILE, picks tid in Init and prints <<"AT", tid, l, ...flags>> from a CONSTRAINT.
    Returns list per trace: dict(maxl=<highest l reached>, flags=<list of flag tuples seen at each l>).
    Runs `shards` TLC processes in parallel (each -workers 1 so printed lines never interleave)."""
    import concurrent.futures
    n = len(traces)
    if n == 0:
        return []
    if shards is None:
        shards = max(1, min(12, n // 400))
    size = (n + shards - 1) // shards
    jobs = []
    for s in range(shards):
        part = traces[s * size:(s + 1) * size]
        if not part:
            continue
        path = os.path.join(ctx.tmp, "traces_%s_%d_%d.json" % (module, s, len(os.listdir(ctx.tmp))))
        with open(path, "w") as fh:
            json.dump(part, fh)
        jobs.append((s * size, path, len(part)))
    out = [None] * n

    def one(job):
        base, path, cnt = job
        r = ctx.tlc(area, module, cfg, gen=gen, workers=1, env={"TRACE_FILE": path}, cont=True, timeout=timeout)
        return base, cnt, r

    with concurrent.futures.ThreadPoolExecutor(max_workers=len(jobs)) as ex:
        for base, cnt, r in ex.map(one, jobs):
            per = {}
            for t in r.tagged("AT"):
                tid, l = t[0], t[1]
                d = per.setdefault(tid, {"maxl": 0, "flags": {}})
                if l > d["maxl"]:
                    d["maxl"] = l
                if len(t) > 2:
                    d["flags"].setdefault(l, set()).add(tlaval.freeze(t[2:]))
            for tid in range(1, cnt + 1):
                out[base + tid - 1] = per.get(tid, {"maxl": 0, "flags": {}})
                out[base + tid - 1]["violated"] = r.violated
    return out


HANGS = [0]      # calls into the real code stopped by the watchdog in this process
PROGRESS = {"t": time.time(), "external": 0}     # last sign of life of the harness; > 0 while TLC / a worker pool is running


def stall_guard(prop, limit=None):
    """Last line of defence against real code that does not return where no watchdog() block covers it (a rig being built,
    a worker of a pool): a daemon thread that, when the harness shows no progress for `limit` seconds outside TLC runs,
    reports that as what it is - the code under test hangs - and ends the process with the violation exit code."""
    import threading
    limit = limit or float(os.environ.get("HIO_VERIF_STALL_S", "600"))

    def watch():
        while True:
            time.sleep(5)
            if PROGRESS["external"] <= 0 and time.time() - PROGRESS["t"] > limit:
                path = os.path.join(VERIF, "replays", "%s-stall.json" % prop)
                try:
                    with open(path, "w") as fh:
                        json.dump({"property": prop, "what": "no progress for %ds: the code under test did not return" % limit}, fh)
                except OSError:
                    pass
                print("VIOLATION property=%s replay=%s" % (prop, path))
                print("  what: the code under test did not return (no progress of the check for %d s outside model checking)" % limit)
                sys.stdout.flush()
                os._exit(1)
    threading.Thread(target=watch, daemon=True).start()


class Hang(BaseException):
    """raised inside the real code by the watchdog: the call did not return in time (observable outcome)"""


class watchdog:
    """with watchdog(5): real_code()  -- raises Hang in the main thread if the block does not return.
    The limit is CPU time of this process (ITIMER_PROF): code that loops for ever burns it, while a process that is merely
    starved (a loaded machine, memory pressure, a slow disk) does not - so load cannot turn into a false "did not return".
    A call that blocks without using the CPU is caught by a wall clock limit twelve times as long (at least 60 s)."""

    def __init__(self, seconds=None):
        self.seconds = seconds or WATCHDOG_S

    def _fire(self, signum, frame):
        HANGS[0] += 1
        raise Hang("no return within %ss" % self.seconds)

    def __enter__(self):
        import signal
        import threading
        self.active = threading.current_thread() is threading.main_thread()
        if self.active:
            self.old = signal.signal(signal.SIGPROF, self._fire)
            self.oldr = signal.signal(signal.SIGALRM, self._fire)
            # repeating: code that swallows the first Hang (a bare except around a loop) is interrupted again
            signal.setitimer(signal.ITIMER_PROF, self.seconds, 1.0)
            signal.setitimer(signal.ITIMER_REAL, max(12 * self.seconds, 60), 5.0)
        return self

    def __exit__(self, *a):
        import signal
        if self.active:
            signal.setitimer(signal.ITIMER_PROF, 0)
            signal.setitimer(signal.ITIMER_REAL, 0)
            signal.signal(signal.SIGPROF, self.old)
            signal.signal(signal.SIGALRM, self.oldr)
        return False
