"""Scheduler family (C01-C06, C30): configs for specs/sched/Doist.tla, behaviours out of TLC, replay on the
real hio.base.doing classes, projections per property.

A config is a dict:
  kids {sched: [ids]}, kind {id: leaf|dd}, always {dd: bool}, owntock {dd: int}, ext {sched: [[ids]..]},
  rem {sched: [[ids]..]}, Tock, T0, Limit, MaxSteps, Tocks, Rets, EnterOuts, Faults, MaxFaults, MaxOps
A behaviour (printed by DoistGen!Dump) has: log, script, done, ddone, tyme, phase, doers.
"""
import asyncio
import gc
import json
import random

from . import core, tlaval

CONST_KEYS = ["Tock", "T0", "Limit", "MaxSteps", "Tocks", "Rets", "EnterOuts", "Faults", "MaxFaults", "MaxOps"]
SCALES = [0.03125, 0.25, 1.0, 3.0]     # exactly representable: integer quanta * q is exact float arithmetic


def base_cfg(**kw):
    c = dict(kids={"R": ["a", "b", "c"]}, kind={"a": "leaf", "b": "leaf", "c": "leaf"}, always={}, owntock={},
             ext={}, rem={}, Tock=1, T0=0, Limit=0, MaxSteps=3, Tocks=[0, 1, 2], Rets=["T"], EnterOuts=["ok"],
             Faults=[], MaxFaults=0, MaxOps=0)
    c.update(kw)
    for s in c["kids"]:
        c["ext"].setdefault(s, [])
        c["rem"].setdefault(s, [])
    return c


def mc_module(cfg, name="MCRun", extends="DoistGen"):
    def fn(d):
        return tlaval.to_tla(d)
    lines = ["---- MODULE %s ----" % name, "EXTENDS %s" % extends,
             "MCKids == %s" % fn({k: list(v) for k, v in cfg["kids"].items()}),
             "MCKind == %s" % fn(cfg["kind"]),
             "MCAlways == %s" % fn(cfg["always"]),
             "MCOwnTock == %s" % fn(cfg["owntock"]),
             "MCExtSeqs == %s" % fn({s: set(tuple(x) for x in cfg["ext"].get(s, [])) for s in cfg["kids"]}),
             "MCRemSeqs == %s" % fn({s: set(tuple(x) for x in cfg["rem"].get(s, [])) for s in cfg["kids"]}),
             "===="]
    return "\n".join(lines) + "\n"


def cfg_file(cfg, spec="Spec", invariants=(), constraints=(), view=None, follow=False, properties=()):
    consts = {"Kids": "<- MCKids", "Kind": "<- MCKind", "Always": "<- MCAlways", "OwnTock": "<- MCOwnTock",
              "ExtSeqs": "<- MCExtSeqs", "RemSeqs": "<- MCRemSeqs", "Follow": "TRUE" if follow else "FALSE"}
    for k in CONST_KEYS:
        v = cfg[k]
        consts[k] = tlaval.to_tla(set(v)) if isinstance(v, (list, set, tuple)) else str(v)
    return core.cfg_text(spec=spec, constants=consts,
                         invariants=invariants, constraints=constraints, view=view, properties=properties)


def model_check(ctx, cfg, invariants, properties=()):
    """exhaustive MC (log hidden by VIEW)"""
    return ctx.tlc("sched", "MCRun", cfg_file(cfg, invariants=invariants, view="MCView", properties=properties),
                   gen={"MCRun.tla": mc_module(cfg)})


def behaviours(ctx, cfg, invariants=(), simulate=None, depth=200, timeout=3600, workers=1):
    """all maximal behaviours (exhaustive, log in the state) or `simulate` = 'num=N' random ones"""
    r = ctx.tlc("sched", "MCRun", cfg_file(cfg, invariants=invariants, constraints=["Dump"]),
                gen={"MCRun.tla": mc_module(cfg)}, workers=workers, simulate=simulate, depth=depth, timeout=timeout)
    return r, r.tagged_json("BH")


# ---- the adapter: scripted real doers ---------------------------------------------------------------------
def fix(x):
    """JSON -> python: TLC prints empty sequences/functions as [] ; keep lists"""
    return x


class Rig:
    """Builds the real doer forest of a config with per-leaf scripts and runs it."""

    def __init__(self, cfg, script, q=0.25, flavours=None, rng=None, release=False, style="ctor", off=0):
        from hio.base import doing
        self.doing = doing
        # release=True: a class-based doer that is closed by a remove() call asks, from inside its exit(), for the removal of
        # the other doers named in that same call ("an owner releasing its helpers").  They are already out of the
        # scheduler's membership then, so the nested call must change nothing: the model's behaviour is unchanged.
        self.release = release
        # style: how the run's settings reach the Doist: "ctor" - through the constructor, do() without arguments;
        # "args" - Doist(tock) then do(doers=, limit=, tyme=); "warm" - like "args" but the same Doist object has already
        # done another run (other doers, other limit, other tyme): nothing of that run may show in this one
        self.style = style
        # off: the real tyme is (model tyme - off) * q: with off > T0 the run starts at a negative tyme and crosses 0.0
        self.off = off
        self.applists = {}        # scheduler name -> the application's own list object that was handed to the scheduler
        self.stale = None
        if style == "warm":       # doers and DoDoers are built already wound to another tymist (as after a run elsewhere)
            from hio.base import tyming
            self.stale = tyming.Tymist(tyme=99.0)
        self.removing = None
        self.cfg = cfg
        self.q = q
        self.log = []
        self.objs = {}
        self.sched_of = {}
        self.script = {d: list(v) if isinstance(v, list) else [] for d, v in script.items()}
        self.flav = {}
        rng = rng or random.Random(0)
        for s, ks in cfg["kids"].items():
            for k in ks:
                self.sched_of[k] = s
        for s, seqs in cfg["ext"].items():
            for seq in seqs:
                for k in seq:
                    if self.sched_of.setdefault(k, s) != s:
                        raise core.MachineryError("config: doer %s extendable into two schedulers" % k)
        for d, kind in cfg["kind"].items():
            if kind == "leaf":
                ok = self.compatible(self.script.get(d, []))
                f = (flavours or {}).get(d)
                if f not in ok:
                    f = rng.choice(ok)
                self.flav[d] = f
        # build bottom-up
        for d, kind in cfg["kind"].items():
            if kind == "leaf":
                self.objs[d] = self.make_leaf(d)
        pending = [d for d, k in cfg["kind"].items() if k == "dd"]
        while pending:
            for d in list(pending):
                if all(k in self.objs for k in cfg["kids"][d]):
                    self.objs[d] = self.make_dd(d)
                    pending.remove(d)
        self.runargs = {}
        t0 = (cfg["T0"] - self.off) * q
        self.applists["R"] = [self.objs[k] for k in cfg["kids"]["R"]]
        if self.style == "ctor":
            self.doist = doing.Doist(tock=cfg["Tock"] * q, tyme=t0,
                                     limit=(cfg["Limit"] * q if cfg["Limit"] else None),
                                     doers=self.applists["R"])
        else:
            self.doist = doing.Doist(tock=cfg["Tock"] * q) if self.style == "args" else \
                doing.Doist(tock=cfg["Tock"] * q, tyme=t0 + 7 * q)
            self.runargs = dict(doers=self.applists["R"], tyme=t0,
                                limit=(cfg["Limit"] * q if cfg["Limit"] else None))
        self.objs["R"] = self.doist

    def warmup(self, mode):
        """an earlier run of the same Doist object: two silent doers, one of them still alive when a limit stops the run"""
        doing, q, cfg = self.doing, self.q, self.cfg

        def quick(tymth, tock=0.0, **opts):
            yield tock
            yield tock
            return True

        def slow(tymth, tock=0.0, **opts):
            for _ in range(6):
                yield tock
            return False
        # with a limit the earlier run alternately ends by its limit (done False, a doer force-closed) or completes before a
        # generous limit (done True); either way the limit differs from this run's
        n = (3 if sum(len(v) for v in self.script.values()) % 2 else 20)
        kw = dict(doers=[doing.doify(quick), doing.doify(slow)], limit=(cfg["Tock"] * n * q if cfg["Limit"] else None))
        if mode == "do":
            self.doist.do(**kw)
        else:
            asyncio.run(self.doist.ado(**kw))

    @staticmethod
    def compatible(sc):
        """flavours that can realise this script"""
        outs = [(c["o"], tuple(c["a"]) if isinstance(c["a"], list) else ()) for c in sc]
        fl = ["cls", "gen", "re", "fn", "dz", "bm"]
        for i, (o, a) in enumerate(outs):
            if o == "r" and a != ("T",):
                fl = [f for f in fl if f != "cls"]          # plain recur can only finish by returning True
            if o == "k":
                fl = [f for f in fl if f in ("cls", "gen", "re")]  # function doers are user code (bareDo: except Exception)
        return fl

    # -- events
    def ev(self, k, d, t=0, o="", a=()):
        self.log.append({"k": k, "d": d, "t": t, "o": o, "a": list(a)})

    def quanta(self, tyme):
        v = tyme / self.q + self.off
        return int(v) if float(v).is_integer() else v

    def sched_obj(self, d):
        return self.objs[self.sched_of[d]]

    def step(self, d, tyme, tyme2):
        """perform the next scripted recur choice of leaf d; returns ('y', tock) | ('r', value) or raises"""
        sc = self.script[d]
        c = sc.pop(0) if sc else {"o": "r", "a": ["T"]}
        o, a = c["o"], (c["a"] if isinstance(c["a"], list) else [])
        t = self.quanta(tyme)
        if tyme2 is not None and tyme2 != tyme:
            t = ["tymth-differs", t, self.quanta(tyme2)]
        self.ev("recur", d, t, o, a)
        ri = len(self.log) - 1
        if o == "y":
            return ("y", a[0])
        if o == "r":
            return ("r", {"T": True, "F": False, "N": None}[a[0]])
        if o == "x":
            raise ValueError("scripted raise in %s" % d)
        if o == "k":
            raise KeyboardInterrupt()
        s = self.sched_obj(d)
        try:
            if o == "e":
                # the application keeps its own list of the doers it handed over and adds the new ones there first: the
                # scheduler's membership must not depend on that list
                self.applists[self.sched_of[d]].extend(self.objs[n] for n in a)
                s.extend([self.objs[n] for n in a])
            elif o == "m":
                self.removing = (s, list(a))
                try:
                    s.remove([self.objs[n] for n in a])
                finally:
                    self.removing = None
        except BaseException:
            self.log[ri]["exc"] = True
            raise
        self.ev("members", self.sched_of[d], 0, "", [self.name_of(x) for x in s.doers])
        return ("y", 0)

    def on_exit(self, d):
        if self.release and self.removing is not None and d in self.removing[1]:
            s, names = self.removing
            others = [self.objs[n] for n in names if n != d]
            if others:
                s.remove(others)

    def name_of(self, obj):
        for n, o in self.objs.items():
            if o is obj or o == obj:
                return n
        return "?"

    def enter_choice(self, d):
        sc = self.script[d]
        c = sc.pop(0) if sc else {"o": "ok", "a": []}
        for e in reversed(self.log):          # remember the enter outcome on the enter event (extra key, not compared)
            if e["k"] == "enter" and e["d"] == d:
                e["eo"] = c["o"]
                break
        return c["o"], (c["a"] if isinstance(c["a"], list) else [])

    def ytock(self, t, n):
        """yielded value for model tock t: 0 is yielded alternately as 0.0 and None"""
        if t == 0:
            return None if n % 2 else 0.0
        return t * self.q

    def make_leaf(self, d):
        rig, doing, fl = self, self.doing, self.flav[d]
        if fl == "cls":
            class L(doing.Doer):
                def enter(self, *, temp=None):
                    rig.ev("enter", d)
                    o, a = rig.enter_choice(d)
                    if o == "x":
                        raise ValueError("scripted enter raise %s" % d)
                    if o == "r":
                        self.done = True

                def recur(self, tyme):
                    r = rig.step(d, tyme, self.tyme)
                    if r[0] == "y":
                        self.tock = rig.ytock(r[1], 0) or 0.0
                        return False
                    return r[1]

                def clean(self):
                    rig.ev("clean", d)

                def cease(self):
                    rig.ev("cease", d)

                def abort(self, ex):
                    rig.ev("abort", d)

                def exit(self):
                    rig.ev("exit", d)
                    rig.on_exit(d)
            return L(tock=0.0, **({"tymth": self.stale.tymen()} if self.stale else {}))
        if fl in ("gen", "re"):
            # "gen": a Doer whose recur is a generator method; "re": the library's ReDoer (its do() delegates with yield from)
            class Gn(doing.Doer if fl == "gen" else doing.ReDoer):
                def enter(self, *, temp=None):
                    rig.ev("enter", d)
                    self._o, self._a = rig.enter_choice(d)
                    if self._o == "x":
                        raise ValueError("scripted enter raise %s" % d)

                def recur(self, tock=None):
                    if self._o == "r":
                        return {"T": True, "F": False, "N": None}[self._a[0]]
                    n = 0
                    y = 0.0
                    while True:
                        tyme = yield y
                        r = rig.step(d, tyme, self.tyme)
                        if r[0] == "r":
                            return r[1]
                        n += 1
                        y = rig.ytock(r[1], n)

                def clean(self):
                    rig.ev("clean", d)

                def cease(self):
                    rig.ev("cease", d)

                def abort(self, ex):
                    rig.ev("abort", d)

                def exit(self):
                    rig.ev("exit", d)
                    rig.on_exit(d)
            return Gn(tock=0.0, **({"tymth": self.stale.tymen()} if self.stale else {}))

        def body(tymth, tock=0.0, **opts):
            # the documented generator-function doer template (doing.bareDo)
            try:
                rig.ev("enter", d)
                o, a = rig.enter_choice(d)
                if o == "x":
                    raise ValueError("scripted enter raise %s" % d)
                done = None
                if o == "r":
                    done = {"T": True, "F": False, "N": None}[a[0]]
                else:
                    n = 0
                    y = tock
                    while True:
                        tyme = yield y
                        r = rig.step(d, tyme, tymth())
                        if r[0] == "r":
                            done = r[1]
                            break
                        n += 1
                        y = rig.ytock(r[1], n)
            except GeneratorExit:
                rig.ev("cease", d)
            except Exception:
                rig.ev("abort", d)
                raise
            else:
                rig.ev("clean", d)
            finally:
                rig.ev("exit", d)
            return done
        if fl == "fn":
            return doing.doify(body, name="fn_" + d)
        if fl == "dz":
            def body2(tymth, tock=0.0, **opts):
                return (yield from body(tymth, tock=tock, **opts))
            return doing.doize()(body2)

        class B:
            @doing.doize()
            def meth(self, tymth=None, tock=0.0, **opts):
                return (yield from body(tymth, tock=tock, **opts))
        self._keep = getattr(self, "_keep", []) + [B]
        return B().meth

    def make_dd(self, d):
        rig, doing, cfg = self, self.doing, self.cfg

        class DD(doing.DoDoer):
            def enter(self, doers=None, *, temp=None):
                if doers is None:
                    rig.ev("enter", d)
                return super().enter(doers=doers, temp=temp)

            def clean(self):
                rig.ev("clean", d)

            def cease(self):
                rig.ev("cease", d)

            def abort(self, ex):
                rig.ev("abort", d)

            def exit(self, deeds=None):
                super().exit(deeds=deeds)
                if deeds is None:
                    rig.ev("exit", d)
        self.applists[d] = [self.objs[k] for k in cfg["kids"][d]]
        return DD(doers=self.applists[d], tock=cfg["owntock"].get(d, 0) * self.q,
                  always=bool(cfg["always"].get(d, False)), **({"tymth": self.stale.tymen()} if self.stale else {}))

    def run(self, mode="do"):
        phase = None
        try:
            with core.watchdog():
                if self.style == "warm":
                    self.warmup(mode)
                if mode == "do":
                    self.doist.do(**self.runargs)
                else:
                    asyncio.run(self.doist.ado(**self.runargs))
            phase = "ok"
        except ValueError as ex:
            phase = "raised"
        except BaseException as ex:   # anything else escaping do() is an observable outcome
            phase = "escaped:" + type(ex).__name__
        n = len(self.log)
        gc.collect()
        late = self.log[n:]
        log = self.log[:n]

        def dn(v):
            return "T" if v is True else ("F" if v is False else ("N" if v is None else repr(v)))
        done = {}
        for name, o in self.objs.items():
            if name != "R":
                done[name] = dn(o.done)
        if phase == "ok":
            if self.doist.done:
                phase = "allDone"
            else:
                lim = self.cfg["Limit"]
                interrupted = any(e["k"] == "recur" and e["o"] == "k" for e in log)
                phase = "interrupted" if interrupted else "limited"
        doers = {"R": [self.name_of(x) for x in self.doist.doers]}
        for name, kind in self.cfg["kind"].items():
            if kind == "dd":
                doers[name] = [self.name_of(x) for x in self.objs[name].doers]
        return {"log": log, "late": late, "done": done, "ddone": bool(self.doist.done), "tyme": self.quanta(self.doist.tyme),
                "phase": phase, "doers": doers, "flav": dict(self.flav)}


# ---- projections ------------------------------------------------------------------------------------------
def norm_log(log):
    out = []
    for e in log:
        out.append({"k": e["k"], "d": e["d"], "t": e["t"], "o": e["o"], "a": list(e["a"]) if isinstance(e["a"], list) else []})
    return out


def expected_done(cfg, beh, flav):
    """model done flags, adjusted for what each doer flavour can express (see DESIGN C05)"""
    exp = dict(beh["done"])
    for d, sc in beh["script"].items():
        if cfg["kind"].get(d) != "leaf" or not isinstance(sc, list) or not sc:
            continue
        last = sc[-1]
        if flav.get(d) in ("gen", "re") and last["o"] == "r" and list(last["a"]) == ["N"]:
            exp[d] = "N"     # Doer with generator recur assigns done = <returned value> itself
        if flav.get(d) == "cls" and sc[0]["o"] == "r":
            exp[d] = "T"     # plain Doer can only finish in enter by setting done True
    return exp


def proj_life(log):
    per = {}
    for e in log:
        if e["k"] != "members":
            per.setdefault(e["d"], []).append(e["k"])
    return per


def proj_forced(log):
    return [e["d"] for e in log if e["k"] == "cease"]


def proj_exits(log):
    return [(e["k"], e["d"]) for e in log if e["k"] in ("cease", "abort", "clean", "exit")]


def proj_recur(log):
    return [(e["d"], json.dumps(e["t"])) for e in log if e["k"] == "recur"]


def proj_ops(cfg, log):
    involved = set()
    for e in log:
        if e["k"] == "recur" and e["o"] in ("e", "m"):
            involved.update(e["a"])
    return [(e["k"], e["d"], json.dumps(e["t"]), e["o"], tuple(e["a"])) for e in log
            if e["k"] == "members" or (e["k"] == "recur" and e["o"] in ("e", "m")) or e["d"] in involved]


def wellformed(kinds):
    """enter recur* (clean|cease|abort) exit"""
    if not kinds:
        return True
    if kinds[0] != "enter" or len(kinds) < 3 or kinds[-1] != "exit" or kinds[-2] not in ("clean", "cease", "abort"):
        return False
    return all(k == "recur" for k in kinds[1:-2])


def compare(cfg, beh, real):
    """-> dict property -> list of mismatch descriptions (empty = agrees)"""
    out = {p: [] for p in ("C01", "C02", "C03", "C05", "C06", "full")}
    elog, rlog = norm_log(beh["log"]), norm_log(real["log"])
    if elog != rlog:
        i = next((i for i, (x, y) in enumerate(zip(elog, rlog)) if x != y), min(len(elog), len(rlog)))
        out["full"].append("event %d: model %s, code %s" % (i, elog[i] if i < len(elog) else None, rlog[i] if i < len(rlog) else None))
    # C01
    el, rl = proj_life(elog), proj_life(rlog + norm_log(real["late"]))
    for d in sorted(set(el) | set(rl)):
        if el.get(d, []) != rl.get(d, []):
            out["C01"].append("life-cycle of %s: model %s, code %s" % (d, el.get(d), rl.get(d)))
        if not wellformed(rl.get(d, [])):
            out["C01"].append("life-cycle of %s not well formed: %s" % (d, rl.get(d)))
    # C02
    if real["late"]:
        out["C02"].append("life-cycle events after do() returned/raised: %s" % real["late"][:4])
    if proj_forced(elog) != proj_forced(rlog):
        out["C02"].append("forced-close order: model %s, code %s" % (proj_forced(elog), proj_forced(rlog)))
    kids = cfg["kids"]
    pos = {(e["k"], e["d"]): i for i, e in enumerate(rlog) if e["k"] in ("exit",)}
    for g, ks in kids.items():
        if g != "R" and ("exit", g) in pos:
            for k in ks:
                if ("exit", k) in pos and pos[("exit", k)] > pos[("exit", g)]:
                    out["C02"].append("child %s exits after its DoDoer %s" % (k, g))
    # C03
    if proj_recur(elog) != proj_recur(rlog):
        out["C03"].append("recur (doer,tyme) sequence: model %s, code %s" % (proj_recur(elog)[:12], proj_recur(rlog)[:12]))
    # C05
    exp_done = expected_done(cfg, beh, real["flav"])
    for k in ("ddone", "tyme", "phase"):
        if beh[k] != real[k]:
            out["C05"].append("%s: model %s, code %s" % (k, beh[k], real[k]))
    for d, v in exp_done.items():
        if real["done"].get(d) != v:
            out["C05"].append("done[%s]: model %s, code %s" % (d, v, real["done"].get(d)))
    # C06
    if proj_ops(cfg, elog) != proj_ops(cfg, rlog):
        out["C06"].append("extend/remove effects: model %s, code %s" % (proj_ops(cfg, elog), proj_ops(cfg, rlog)))
    ed = {s: (v if isinstance(v, list) else []) for s, v in beh["doers"].items()}
    if ed != real["doers"]:
        out["C06"].append("membership lists at end: model %s, code %s" % (ed, real["doers"]))
    return out


# ---- property-level oracles on the real run alone -----------------------------------------------------------
# Consulted only when a property's projection of the real run differs from the model's.  They decide whether the real
# run itself breaks THAT property (-> VIOLATION) or merely took a different but, for that property, legitimate course
# (a change that belongs to another property: -> divergence, recorded in the evidence, no alarm).  An oracle answers
# None when it cannot decide from the real run alone; the difference is then a violation (conservative).
def sched_map(cfg):
    m = {}
    for s_, ks in cfg["kids"].items():
        for k in ks:
            m[k] = s_
    for s_, seqs in cfg["ext"].items():
        for seq in seqs:
            for k in seq:
                m.setdefault(k, s_)
    return m


def real_c01(cfg, beh, real):
    """well-formed life-cycle of every doer, and the closing event says how the doer really ended"""
    probs = []
    per = {}
    for e in real["log"] + real["late"]:
        if e["k"] != "members":
            per.setdefault(e["d"], []).append(e)
    el = proj_life(norm_log(beh["log"]))
    leaves_equal = all([e["k"] for e in evs] == el.get(d, []) for d, evs in per.items() if cfg["kind"].get(d) == "leaf")
    for d, evs in sorted(per.items()):
        kinds = [e["k"] for e in evs]
        if not wellformed(kinds):
            probs.append("life-cycle of %s not well formed: %s" % (d, kinds))
            continue
        if cfg["kind"].get(d) == "leaf":
            recs = [e for e in evs if e["k"] == "recur"]
            if recs:
                o = recs[-1]["o"]
                want = "clean" if o == "r" else ("abort" if o in ("x", "k") or recs[-1].get("exc") else "cease")
            else:
                eo = evs[0].get("eo", "ok")
                want = "clean" if eo == "r" else ("abort" if eo == "x" else "cease")
            if kinds[-2] != want:
                probs.append("life-cycle of %s ends with %s but the doer %s" % (d, kinds[-2], {
                    "clean": "finished by itself", "abort": "raised", "cease": "was still running"}[want]))
        elif kinds != el.get(d, []) and leaves_equal:
            probs.append("life-cycle of DoDoer %s: model %s, code %s (all leaves as in the model)" % (d, el.get(d), kinds))
    return probs


def real_c02(cfg, beh, real):
    """-> (problems, known): nothing after do() returned, children before their DoDoer, every forced-close sweep of a
    scheduler in reverse enter order (known finding: that scheduler was extended from inside a running doer before)"""
    probs, known = [], []
    if real["late"]:
        probs.append("life-cycle events after do() returned/raised: %s" % real["late"][:4])
    log, so = real["log"], sched_map(cfg)
    pos = {e["d"]: i for i, e in enumerate(log) if e["k"] == "exit"}
    for g, ks in cfg["kids"].items():
        if g != "R" and g in pos:
            for k in set(ks) | {x for x, s_ in so.items() if s_ == g}:
                if k in pos and pos[k] > pos[g]:
                    probs.append("child %s exits after its DoDoer %s" % (k, g))
    entered, sweeps, extended = {}, {}, set()

    def flush():
        for s_, lst in sweeps.items():
            for x, y in zip(lst, lst[1:]):
                if entered.get(x, -1) < entered.get(y, -1):
                    msg = "forced-close sweep of %s closes %s before %s although %s was entered later" % (s_, x, y, y)
                    (known if s_ in extended else probs).append(msg)
        sweeps.clear()
    for i, e in enumerate(log):
        if e["k"] == "enter":
            entered.setdefault(e["d"], i)
        if e["k"] in ("recur", "members", "abort", "clean"):
            flush()
            if e["k"] == "recur" and e["o"] == "e":
                extended.add(so.get(e["d"]))
        elif e["k"] == "cease":
            sweeps.setdefault(so.get(e["d"]), []).append(e["d"])
    flush()
    left = [d for d in entered if d not in pos]
    if left:
        probs.append("doers %s were entered but not exited when the run returned / raised" % sorted(left))
    return probs, known


def real_c03(cfg, beh, real):
    """the real (doer, tyme) recur sequence is the model's as far as the real run went (where a run stops is C05)"""
    pe, pr = proj_recur(norm_log(beh["log"])), proj_recur(norm_log(real["log"]))
    if pr == pe[:len(pr)]:
        return []
    i = next((i for i, (x, y) in enumerate(zip(pe, pr)) if x != y), min(len(pe), len(pr)))
    return ["recur step %d: the cycle model gives %s, code %s" % (i, pe[i] if i < len(pe) else "(run over)", pr[i] if i < len(pr) else None)]


def same_run(r1, r2):
    """two real runs are observably the same (C30: do vs ado; C04 uses its own leaf projection)"""
    out = []
    l1, l2 = norm_log(r1["log"]), norm_log(r2["log"])
    if l1 != l2:
        i = next((i for i, (x, y) in enumerate(zip(l1, l2)) if x != y), min(len(l1), len(l2)))
        out.append("event %d: %s vs %s" % (i, l1[i] if i < len(l1) else None, l2[i] if i < len(l2) else None))
    for k in ("done", "ddone", "tyme", "phase", "doers"):
        if r1[k] != r2[k]:
            out.append("%s: %s vs %s" % (k, r1[k], r2[k]))
    if bool(r1["late"]) != bool(r2["late"]):
        out.append("late events: %s vs %s" % (r1["late"][:3], r2["late"][:3]))
    return out


STYLES = ("ctor", "args", "warm")


def replay(cfg, beh, q=0.25, seed=0, mode="do", flavours=None, release=False, style="ctor", off=0):
    rig = Rig(cfg, beh["script"], q=q, rng=random.Random(seed), flavours=flavours, release=release, style=style, off=off)
    return rig.run(mode)


# ---- forests and plans ------------------------------------------------------------------------------------
def forest(shape):
    """shape: nested list, e.g. ["a", ["G", "b", "c"], "d"] -> kids, kind"""
    kids, kind = {"R": []}, {}

    def walk(parent, items):
        for it in items:
            if isinstance(it, list):
                g = it[0]
                kind[g] = "dd"
                kids[g] = []
                kids[parent].append(g)
                walk(g, it[1:])
            else:
                kind[it] = "leaf"
                kids[parent].append(it)
    walk("R", shape)
    return kids, kind


def mk(shape, extra=(), **kw):
    kids, kind = forest(shape)
    for x in extra:
        kind[x] = "leaf"
    dds = [d for d, k in kind.items() if k == "dd"]
    always = kw.pop("always", {})
    owntock = kw.pop("owntock", {})
    return base_cfg(kids=kids, kind=kind, always={d: always.get(d, False) for d in dds},
                    owntock={d: owntock.get(d, 0) for d in dds}, **kw)


FLAT3 = ["a", "b", "c"]
NEST = ["a", ["G", "b", "c"], "d"]
DEEP = ["a", ["G", "b", ["H", "c"]], "d"]
TWO = [["G", "a", "b"], ["H", "c", "d"]]

INV_ALL = ["TypeOK", "LifeOK", "AllOutAtEnd", "SweepsOrderedModuloExtend", "OpsExact", "EndExact", "DoneExact"]


def parallel(fn, items, n=6):
    import concurrent.futures
    with concurrent.futures.ThreadPoolExecutor(max_workers=n) as ex:
        return list(ex.map(fn, items))


def real_verdict(prop, cfg, beh, real):
    """-> (problems | None, known): the property evaluated on the real run alone; None = no such oracle (C05, C06: the
    property fixes the whole projection, every difference from the model is a violation)"""
    if prop == "C01":
        return real_c01(cfg, beh, real), []
    if prop == "C02":
        return real_c02(cfg, beh, real)
    if prop == "C03":
        return real_c03(cfg, beh, real), []
    return None, []


def check_replays(ctx, prop, cfg, behs, keys=None, scales=None, modes=("do",), label=""):
    """replay behaviours on the real code; report mismatches of this property's projection"""
    keys = keys or [prop]
    n = 0
    gc.collect()
    gc.freeze()     # the behaviour lists are big: keep them out of the per-replay gc.collect()
    for i, b in enumerate(behs):
        reals = {}
        multi = prop == "C06" and any(e["k"] == "recur" and e["o"] == "m" and len(set(e["a"])) > 1 for e in b["log"])
        these = modes
        if tuple(modes) == ("do",) and prop != "C04":       # every fourth behaviour runs through the asyncio entry point
            these = ("ado",) if (i + ctx.seed) % 4 == 3 else ("do",)
        for mode in (list(these) + ["do+release"] if multi else these):
            q = (scales or SCALES)[(i + ctx.seed) % len(scales or SCALES)]
            style = STYLES[((i + ctx.seed) // len(scales or SCALES)) % len(STYLES)]
            # every third behaviour starts below zero, 1-3 scheduler tocks before tyme 0.0
            off = (cfg["T0"] + ((i // 3) % 3 + 1) * cfg["Tock"]) if ((i + ctx.seed) % 3 == 2 and q in SCALES) else 0
            real = replay(cfg, b, q=q, seed=ctx.seed * 1000003 + i, mode="do" if mode == "do+release" else mode,
                          release=(mode == "do+release"), style=style, off=off)
            reals[mode] = real
            cmpd = compare(cfg, b, real)
            ctx.traces += 1
            n += 1
            nontrivial = any(e["k"] in ("cease", "abort") or e["o"] in ("e", "m") for e in b["log"]) or len(b["log"]) > 6
            ctx.case((label, json.dumps(b["script"], sort_keys=True), mode) if nontrivial else None,
                     {"config": label, "script": b["script"], "model_log_head": b["log"][:6], "phase": b["phase"]}
                     if i % 97 == 3 else None)
            bad = [m for k in keys for m in cmpd[k]]
            case = {"config": cfg, "behaviour": b, "real": real, "mismatches": bad, "q": q, "mode": mode, "style": style, "off": off}
            where = "%s [%s q=%s mode=%s style=%s%s]" % (prop, label, q, mode, style, " start tyme %s" % ((cfg["T0"] - off) * q) if off else "")
            if real["phase"] == "escaped:Hang":
                # the scheduler did not return: no property of a run can be said to hold on it
                ctx.violation("%s: the real run did not return within %ss (model: %s)" % (where, core.WATCHDOG_S, b["phase"]), case)
            elif prop == "C30":
                if bad:
                    ctx.divergence("%s: %s" % (where, bad[0]))      # both loops are compared with each other below
            elif bad:
                verdict, known = real_verdict(prop, cfg, b, real)
                if verdict is None or verdict:
                    ctx.violation("%s: %s%s" % (where, bad[0], "; on the real run alone: %s" % verdict[0] if verdict else ""), case)
                elif known:
                    ctx.violation("%s (run differs from the model): %s" % (where, known[0]), case, finding="C02-extend-midcycle")
                else:
                    ctx.divergence("%s: %s" % (where, bad[0]))
            elif prop == "C02" and isinstance(b.get("bad"), list) and b["bad"]:
                if set(b["bad"]) <= set(b["ext"] if isinstance(b["ext"], list) else []):
                    ctx.violation("out-of-order sweep after mid-cycle extend (model and code agree)", b,
                                  finding="C02-extend-midcycle")
                else:
                    ctx.violation("model predicts out-of-order sweep not explained by extend", b)
        if prop == "C30" and len(reals) == 2:
            diff = same_run(reals["do"], reals["ado"])
            if diff:
                ctx.violation("C30 [%s]: do() and asyncio.run(ado()) differ: %s" % (label, diff[0]),
                              {"config": cfg, "behaviour": b, "real": reals["do"], "real_ado": reals["ado"], "mismatches": diff,
                               "q": q, "mode": "both"})
    gc.unfreeze()
    return n


def report_mc(ctx, prop, r, label, mine):
    """violations of this property's invariants in the model are violations (the spec models the code)"""
    for v in r.violated:
        if v in mine or v == "TypeOK":
            ctx.violation("model [%s] violates %s" % (label, v), {"config": label, "tlc_tail": r.out[-6000:]})


def run_family(ctx, prop, mine, mc=(), exh=(), sim=(), keys=None, modes=("do",), refine=()):
    """mc/exh/sim/refine: lists of (label, cfg[, n])"""
    def do_mc(item):
        label, cfg = item[0], item[1]
        return label, model_check(ctx, cfg, mine)
    for label, r in parallel(do_mc, mc, n=2):
        report_mc(ctx, prop, r, label, mine)

    def do_ref(item):
        label, cfg = item[0], item[1]
        r = ctx.tlc("sched", "MCRun", cfg_file(cfg, properties=["FlatSpec"]),
                    gen={"MCRun.tla": mc_module(cfg, extends="DoistRefine")}, workers=8)
        return label, r
    for label, r in parallel(do_ref, refine, n=2):
        for v in r.violated:
            ctx.violation("model [%s] does not refine FlatSched: %s" % (label, v), {"config": label, "tlc_tail": r.out[-6000:]})

    def do_exh(item):
        label, cfg = item[0], item[1]
        r, behs = behaviours(ctx, cfg, invariants=mine)
        return label, cfg, r, behs

    def do_sim(item):
        label, cfg, n = item
        r, behs = behaviours(ctx, cfg, invariants=mine, simulate="num=%d" % n, depth=400)
        return label, cfg, r, behs
    for label, cfg, r, behs in parallel(do_exh, exh, n=8) + parallel(do_sim, sim, n=8):
        report_mc(ctx, prop, r, label, mine)
        if not behs:
            raise core.MachineryError("no behaviours out of TLC for %s" % label)
        check_replays(ctx, prop, cfg, behs, keys=keys, modes=modes, label=label)
