#!/venv/bin/python
"""tools/mutcamp.py <name> <file relative to src> <func[,func...]|*> <prop[,prop...]> [--jobs N] [--max M]

Mutation campaign (development aid, not a registered command): every single-site mutant of the named functions
(qualified names like Doist.do, or * for the whole file) is applied to a SCRATCH copy of /repo/src (never /repo itself) and
the quick checks of the listed properties are run on it until one reports a violation.  Survivors (no check objected) are
written to /tmp/mutcamp/<name>.json for review: each is either an equivalent mutant, a change outside the listed
properties, or a gap in the checks.

Operators: comparison boundary / negation, `is not None` -> truthiness, and <-> or, dropped `not`, integer constant +1,
+ <-> -, True <-> False, statement deletion (simple statements -> pass), break/continue.
"""
import ast
import concurrent.futures
import json
import os
import re
import shutil
import subprocess
import sys
import tempfile
import time

V = os.path.dirname(os.path.dirname(os.path.abspath(__file__)))
PY = "/venv/bin/python"


def ranges(path, funcs):
    src = open(path).read()
    if funcs == ["*"]:
        return [(1, len(src.splitlines()))]
    tree = ast.parse(src)
    out = []

    def walk(node, prefix):
        for ch in ast.iter_child_nodes(node):
            if isinstance(ch, (ast.FunctionDef, ast.AsyncFunctionDef, ast.ClassDef)):
                q = prefix + ch.name
                if q in funcs or ch.name in funcs:
                    first = ch.body[0]
                    start = ch.body[1].lineno if (isinstance(first, ast.Expr) and isinstance(getattr(first, "value", None), ast.Constant)
                                                  and isinstance(first.value.value, str) and len(ch.body) > 1) else first.lineno
                    out.append((start, ch.end_lineno))
                walk(ch, q + ".")
    walk(tree, "")
    return out


def docstring_lines(path):
    tree = ast.parse(open(path).read())
    skip = set()
    for node in ast.walk(tree):
        if isinstance(node, ast.Expr) and isinstance(getattr(node, "value", None), ast.Constant) and isinstance(node.value.value, str):
            skip.update(range(node.lineno, node.end_lineno + 1))
    return skip


SIMPLE_BAD = re.compile(r"^\s*(def |class |return|if |elif |else|for |while |try|except|finally|with |raise|yield|import |from |pass|@|\)|\]|\}|#|$|assert |global |nonlocal |logger\.|print\()")


def split_comment(line):
    """-> (code, comment) with a # inside a string literal left alone (single line literals only)"""
    q = None
    for i, ch in enumerate(line):
        if q:
            if ch == q and line[i - 1] != "\\":
                q = None
        elif ch in "\"'":
            q = ch
        elif ch == "#":
            return line[:i], line[i:]
    return line, ""


def mutants_of_line(full):
    """-> list of (operator, new line)"""
    out = []
    line, comment = split_comment(full)
    if comment:
        res = mutants_of_line(line + "\n")
        return [(op, new.rstrip("\n") + comment) for op, new in res]
    code = line
    stripped = code.strip()
    if not stripped or stripped.startswith("#"):
        return out
    if stripped.startswith(("logger.", "print(", "raise ", "import ", "from ")):
        return out

    def sub(op, pat, rep, count=1):
        new, n = re.subn(pat, rep, line, count=count)
        if n and new != line:
            out.append((op, new))
    sub("lt->le", r" < ", " <= ")
    sub("le->lt", r" <= ", " < ")
    sub("gt->ge", r" > ", " >= ")
    sub("ge->gt", r" >= ", " > ")
    sub("eq->ne", r" == ", " != ")
    sub("ne->eq", r" != ", " == ")
    sub("isnotnone->truthy", r" is not None", "")
    sub("isnone->falsy", r"(\bif |\belif |\band |\bor |\bwhile )(\(?)([\w\.\[\]\(\)]+) is None", r"\1\2not \3")
    sub("and->or", r" and ", " or ")
    sub("or->and", r" or ", " and ")
    sub("drop-not", r"\bnot ", "")
    sub("plus->minus", r" \+ ", " - ")
    sub("minus->plus", r" - ", " + ")
    sub("pluseq->minuseq", r" \+= ", " -= ")
    sub("true->false", r"\bTrue\b", "False")
    sub("false->true", r"\bFalse\b", "True")
    sub("in->notin", r" in (?!range)", " not in ") if re.search(r"\b(if|elif|and|or|while)\b.* in ", line) and " not in " not in line and not stripped.startswith("for ") else None
    sub("notin->in", r" not in ", " in ")
    m = re.search(r"(?<![\w\.\"'])(\d+)(?![\w\.\"'])", code)
    if m and not stripped.startswith(("def ", "class ")):
        n = int(m.group(1))
        out.append(("const+1", line[:m.start(1)] + str(n + 1) + line[m.end(1):]))
        if n > 0:
            out.append(("const-1", line[:m.start(1)] + str(n - 1) + line[m.end(1):]))
    if stripped == "break":
        out.append(("break->continue", line.replace("break", "continue")))
    if stripped == "continue":
        out.append(("continue->pass", line.replace("continue", "pass")))
    if not SIMPLE_BAD.match(line) and not stripped.endswith((",", "(", "[", "{", "\\", ":")) and stripped.count("(") == stripped.count(")") \
            and stripped.count("[") == stripped.count("]"):
        indent = line[:len(line) - len(line.lstrip())]
        out.append(("delete", indent + "pass" + ("\n" if line.endswith("\n") else "")))
    return out


def run_one(job):
    name, rel, lineno, op, new, props, idx = job
    scratch = tempfile.mkdtemp(prefix="hio_mut_")
    try:
        shutil.copytree("/repo/src", os.path.join(scratch, "src"))
        path = os.path.join(scratch, "src", rel)
        lines = open(path).read().splitlines(True)
        old = lines[lineno - 1]
        lines[lineno - 1] = new
        open(path, "w").write("".join(lines))
        env = dict(os.environ, PYTHONPATH=os.path.join(scratch, "src"), PYTHONDONTWRITEBYTECODE="1",
                   HIO_VERIF_SRC=os.path.join(scratch, "src"), HIO_VERIF_EVIDENCE=os.path.join(scratch, "ev"),
                   HIO_VERIF_MAXVIOL="1", HIO_VERIF_TLC_CACHE="/tmp/tlccache", VERIF_SEED="0", HIO_VERIF_STALL_S="150")
        mod = rel[:-3].replace("/", ".")
        imp = subprocess.run([PY, "-W", "ignore", "-c", "import %s" % mod], env=env, capture_output=True, text=True)
        if imp.returncode:
            return {"line": lineno, "op": op, "old": old.rstrip(), "new": new.rstrip(), "status": "invalid"}
        t = time.time()
        for p in props:
            try:
                c = subprocess.run(["./check", p, "--tier", "quick"], cwd=V, env=env, capture_output=True, text=True, timeout=900)
                rc, txt = c.returncode, c.stdout
            except subprocess.TimeoutExpired:
                rc, txt = 1, "what: timeout"
            if rc != 0:
                w = [l.strip() for l in txt.splitlines() if "what:" in l or "MACHINERY" in l][:1]
                return {"line": lineno, "op": op, "old": old.rstrip(), "new": new.rstrip(), "status": "killed", "by": p, "rc": rc,
                        "what": (w[0][:200] if w else ""), "s": round(time.time() - t)}
        return {"line": lineno, "op": op, "old": old.rstrip(), "new": new.rstrip(), "status": "survived", "s": round(time.time() - t)}
    finally:
        shutil.rmtree(scratch, True)


def main():
    args = [a for a in sys.argv[1:] if not a.startswith("--")]
    name, rel, funcs, props = args[0], args[1], args[2].split(","), args[3].split(",")
    jobs = int(next((a.split("=")[1] for a in sys.argv if a.startswith("--jobs=")), 5))
    mx = int(next((a.split("=")[1] for a in sys.argv if a.startswith("--max=")), 100000))
    path = os.path.join("/repo/src", rel)
    rs = ranges(path, funcs)
    skip = docstring_lines(path)
    lines = open(path).read().splitlines(True)
    todo = []
    for (a, b) in rs:
        for ln in range(a, b + 1):
            if ln in skip:
                continue
            for op, new in mutants_of_line(lines[ln - 1]):
                todo.append((name, rel, ln, op, new, props, len(todo)))
    if len(todo) > mx:
        import random
        random.Random(0).shuffle(todo)
        todo = sorted(todo[:mx], key=lambda j: j[2])
    print("%s: %d mutants in %s of %s, checks %s" % (name, len(todo), rs, rel, props), flush=True)
    os.makedirs("/tmp/mutcamp", exist_ok=True)
    res = []
    with concurrent.futures.ThreadPoolExecutor(max_workers=jobs) as ex:
        for fut in concurrent.futures.as_completed([ex.submit(run_one, j) for j in todo]):
            r = fut.result()
            res.append(r)
            if r["status"] != "killed":
                print("%-8s line %d %-18s %s" % (r["status"], r["line"], r["op"], r["new"].strip()[:110]), flush=True)
            json.dump(res, open("/tmp/mutcamp/%s.json" % name, "w"), indent=1)
    k = sum(1 for r in res if r["status"] == "killed")
    s = sum(1 for r in res if r["status"] == "survived")
    print("%s: killed %d, survived %d, invalid %d" % (name, k, s, len(res) - k - s))


main()
