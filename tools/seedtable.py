#!/venv/bin/python
"""print the markdown table of seeded changes (seeded/*/meta.json) for DESIGN.md section 9.4"""
import json, os, glob
NOTES = {  # seeds the checks missed at first, and what was added to catch them
    "C02-a1": "after configuration `dd-ext-fault` was added", "C02-a2": "after configuration `dd-remove-mid`",
    "C06-a2": "after the `do+release` replay", "C08-a1": "after the relational oracle at decimal scales",
    "C08-a2": "after the read order was varied", "C12-a1": "after `reqclose` and answer patterns were added to Idle.tla",
    "C12-a2": "after answer patterns were added to Idle.tla", "C19-a1": "after script `redir-2bad`",
    "C22-a1": "after delivery order B (altered gram ahead of its zeroth gram)", "C22-a2": "after the two-signer scenarios",
    "C27-a2": "after `Load` (constructor bulk load) was added to Namer.tla", "C29-a1": "after segment `headx`",
    "C29-a2": "after FilerReopen.tla (lives with reopen)", "C14-a1": "after ReqReuse.tla (request sequences over one Requester)",
    "C11-a2": "patch no longer applies after the follow-up repair of ServerTls.close; the re-based demo passes on the patched "
              "tree too (garbage collection closes the socket) - kept as own mutant, caught by the single-peer deep histories",
}
V = os.path.dirname(os.path.dirname(os.path.abspath(__file__)))
print("| seed | change | needs | demo clean/patched | caught by |")
print("|---|---|---|---|---|")
for d in sorted(glob.glob(os.path.join(V, "seeded", "*"))):
    try:
        m = json.load(open(os.path.join(d, "meta.json")))
    except Exception:
        continue
    c = m.get("confirmed_by_me", {})
    def cut(x, n=150):
        x = str(x).replace("|", "/").replace("\n", " ")
        return x if len(x) <= n else x[:n - 3] + "..."
    n = os.path.basename(d)
    by = ", ".join(m.get("detected_by", [])) or "not caught"
    if n in NOTES:
        by += " (%s)" % NOTES[n]
    print("| %s | %s | %s | %s / %s | %s |" % (n, cut(m.get("summary", m.get("what", "")), 170), cut(m.get("needs", ""), 170),
                                             c.get("demo_clean_rc"), c.get("demo_patched_rc"), by))
