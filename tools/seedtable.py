#!/venv/bin/python
"""print the markdown table of seeded changes (seeded/*/meta.json) for DESIGN.md section 9.4"""
import json, os, glob
NOTES = {  # seeds the checks missed at first, and what was added to catch them
    "C02-a1": "after configuration `dd-ext-fault` was added", "C02-a2": "after configuration `dd-remove-mid`",
    "C06-a2": "after the `do+release` replay", "C08-a1": "after the relational oracle at decimal scales",
    "C08-a2": "after the read order was varied", "C12-a1": "after `reqclose` and answer patterns were added to Idle.tla",
    "C12-a2": "after answer patterns were added to Idle.tla", "C19-a1": "after script `redir-2bad`",
    "C22-a1": "after delivery order B (altered gram ahead of its zeroth gram)", "C22-a2": "after the two-signer scenarios",
    "C27-a2": "after `Load` (constructor bulk load) was added to Namer.tla", "C29-a1": "after segment `headx`",
    "C29-a2": "after FilerReopen.tla (lives with reopen)", "C14-a1": "after ReqReuse.tla (request sequences over one Requester)",
    # round 2 ("less obvious places")
    "C01-b1": "after duplicate doers in a DoDoer's extend were added to configuration `dd-ext-fault`",
    "C02-b1": "after every fourth behaviour was run through ado() and un-exited doers at the end of a run became a C02 verdict",
    "C03-b2": "after start tymes below zero (offset of the concretisation) were added",
    "C04-b2": "after the run styles (doers pre-wound to another tymist) were applied to C04",
    "C05-b1": "after configurations `ext-lim`, `dd-ext-lim` (done flags of doers added while running)",
    "C07-b2": "after the wall clock origin was varied so that a deadline is exactly 0.0",
    "C09-b2": "after the connection as a real Server / ServerTls builds and services it was added as an endpoint kind",
    "C10-b1": "after action `Again` (the whole service entry point after a cut-off / aborted handshake)",
    "C11-b1": "after action `OpenFail` (bind failure on reopen)",
    "C12-b1": "after `Wind` events (Server.wind onto another Tymist) were added to Idle.tla",
    "C13-b2": "rebased onto fix 63968b1 (seeded/C13-b2 holds the rebased patch); caught by the real-scale long-line messages "
              "added together with the line length limit in LineFrame.tla",
    "C14-b2": "after the server side parser was reused over a connection and header field sets were compared",
    "C15-b1": "after event lines around MAX_LINE_SIZE at real scale", "C15-b2": "after empty id fields (`id0`, `id0n`) in Sse.tla",
    "C16-b1": "after the grammar's well formed messages (chunk extensions, trailers) became valid-class inputs",
    "C17-b2": "after a latin-1 trailer value", "C19-b1": "after application tags (reply=), falsy ones among them",
    "C19-b2": "after clients made from a ready tcp connector without scheme",
    "C20-b1": "after senders reconfigured on the fly (`.curt` switched on a live Memoer)",
    "C20-b2": "after signer ids of all three kinds (rotated key)", "C21-b2": "after `Bounce` (close + reopen of the transport) and `Greedy`",
    "C22-b1": "after a validly signed undecodable memo under a reused memo id", "C22-b2": "after signer ids of all three kinds",
    "C30-b2": "after runs ended by faults / keyboard interrupt were added to C30",
    # round 3 of seeds (cK: "two cooperating sites / helpers / rarely taken paths"), one change per property
    "C06-c1": "after configuration `dd-idle-removed` (an idle DoDoer(always=True), done flag True while it runs, removed by its parent)",
    "C11-c1": "after every second accepted connection was reset by its peer (shutdown() answers ENOTCONN, the descriptor stays open)",
    "C12-c1": "after answer pattern `blocked` in Idle.tla (the peer stopped reading: every send() would block, an attempt is not traffic)",
    "C19-c1": "after script `created` (201 with a Location field, nothing to follow) in ClientQueue.tla",
    "C22-c1": "after class `unverifiable` in RxGuard.tla (transferable signer id that is not in the receiver's keep)",
    "C24-c1": "after `HolesSpec` (histories that begin with three values under one key: ordinals with holes)",
    "C12-c2": "after answer pattern `slow` in Idle.tla (a peer that reads slowly: a few bytes leave at every service, never all)",
    "C19-c2": "after script `notmod` (304 with a Content-Length field: complete without a body)",
    "C11-c2": "after held connections that were cut off (end of stream seen) before the same address connects again",
    "C11-a2": "patch no longer applies after the follow-up repair of ServerTls.close; the re-based demo passes on the patched "
              "tree too (garbage collection closes the socket) - kept as own mutant, caught by the single-peer deep histories",
}
V = os.path.dirname(os.path.dirname(os.path.abspath(__file__)))
print("| seed | change | needs | demo clean/patched | caught by |")
print("|---|---|---|---|---|")
for d in sorted(glob.glob(os.path.join(V, "seeded", "*"))):
    try:
        m = json.load(open(os.path.join(d, "meta.json")))
    except Exception:
        continue
    c = m.get("confirmed_by_me", {})
    def cut(x, n=150):
        x = str(x).replace("|", "/").replace("\n", " ")
        return x if len(x) <= n else x[:n - 3] + "..."
    n = os.path.basename(d)
    by = ", ".join(m.get("detected_by", [])) or "not caught"
    if n in NOTES:
        by += " (%s)" % NOTES[n]
    print("| %s | %s | %s | %s / %s | %s |" % (n, cut(m.get("summary", m.get("what", "")), 170), cut(m.get("needs", ""), 170),
                                             c.get("demo_clean_rc"), c.get("demo_patched_rc"), by))
