#!/venv/bin/python
"""print the markdown table of seeded changes (seeded/*/meta.json) for DESIGN.md section 9.4"""
import json, os, glob
V = os.path.dirname(os.path.dirname(os.path.abspath(__file__)))
print("| seed | property | change | needs | demo (clean / patched) | caught by |")
print("|---|---|---|---|---|---|")
for d in sorted(glob.glob(os.path.join(V, "seeded", "*"))):
    try:
        m = json.load(open(os.path.join(d, "meta.json")))
    except Exception:
        continue
    c = m.get("confirmed_by_me", {})
    def cut(x, n=150):
        x = str(x).replace("|", "/").replace("\n", " ")
        return x if len(x) <= n else x[:n - 3] + "..."
    print("| %s | %s | %s | %s | %s / %s | %s |" % (os.path.basename(d), m.get("property", m.get("breaks", "?")), cut(m.get("summary", m.get("what", ""))),
          cut(m.get("needs", "")), c.get("demo_clean_rc"), c.get("demo_patched_rc"), ", ".join(m.get("detected_by", [])) or "**missed**"))
