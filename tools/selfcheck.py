"""setup_cmd: nothing to build (pure Python + TLC); verify the toolchain is present."""
import os, shutil, subprocess, sys
ok = True
for tool in ("java",):
    if not shutil.which(tool):
        print("missing", tool); ok = False
for p in ("/opt/veriftools/tla/tla2tools.jar", "/repo/src/hio/__init__.py", "/venv/bin/python"):
    if not os.path.exists(p):
        print("missing", p); ok = False
sys.exit(0 if ok else 1)
