#!/venv/bin/python
"""tools/seedtest.py <seed dir> <name> <prop> [<prop>...]
Confirms a seeded change (patch.diff + demo.py + meta.json) and runs the named quick checks on it.

/repo is NEVER modified: the working tree's src/ is copied to a scratch directory outside /repo and /verif, the patch
is applied there, and the checks are pointed at the copy with HIO_VERIF_SRC (read by harness/core.py only).  The scratch
copy is removed afterwards, also when this tool is interrupted or a check times out.  The outcome is recorded in
/verif/seeded/<name>/meta.json.  (Round 1 applied the patch inside /repo and was killed in the middle: the seeded change
stayed in the tree.  That is why this tool no longer touches /repo.)"""
import json, os, shutil, signal, subprocess, sys, tempfile, time
src, name, props = sys.argv[1], sys.argv[2], sys.argv[3:]
V = os.path.dirname(os.path.dirname(os.path.abspath(__file__)))
PY = "/venv/bin/python"


def sh(cmd, **kw):
    return subprocess.run(cmd, shell=True, stdout=subprocess.PIPE, stderr=subprocess.STDOUT, text=True, **kw)


def on_term(signum, frame):
    raise KeyboardInterrupt()


signal.signal(signal.SIGTERM, on_term)
scratch = tempfile.mkdtemp(prefix="hio_seed_")
try:
    shutil.copytree("/repo/src", os.path.join(scratch, "src"))
    tree = os.path.join(scratch, "src")
    env0 = dict(os.environ, PYTHONPATH="/repo/src", PYTHONDONTWRITEBYTECODE="1")
    env1 = dict(os.environ, PYTHONPATH=tree, PYTHONDONTWRITEBYTECODE="1", HIO_VERIF_SRC=tree,
                HIO_VERIF_EVIDENCE=os.path.join(scratch, "evidence"))
    patch = os.path.abspath(os.path.join(src, "patch.diff"))
    r = sh("patch -p1 --no-backup-if-mismatch < %s" % patch, cwd=scratch)
    if r.returncode:
        print("PATCH DOES NOT APPLY:", r.stdout)
        sys.exit(3)
    demo = os.path.join(src, "demo.py")
    d0 = sh("%s -W ignore %s" % (PY, demo), env=env0, timeout=600)
    d1 = sh("%s -W ignore %s" % (PY, demo), env=env1, timeout=600)
    out = {"demo_clean_rc": d0.returncode, "demo_patched_rc": d1.returncode, "demo_patched_tail": d1.stdout[-400:]}
    imp = sh("%s -W ignore -c 'import hio.base.doing, hio.core.tcp.serving, hio.core.http.serving, hio.core.memo.memoing'" % PY, env=env1)
    out["imports_ok"] = imp.returncode == 0
    out["checks"] = {}
    for p in props:
        t = time.time()
        try:
            c = sh("./check %s --tier quick" % p, cwd=V, env=env1, timeout=1800)
            rc, txt = c.returncode, c.stdout
        except subprocess.TimeoutExpired as ex:
            rc, txt = "timeout", (ex.stdout or "")
            sh("pkill -f 'tlc2[.]TLC'")
        viol = [l for l in txt.splitlines() if l.startswith("VIOLATION")]
        what = [l.strip() for l in txt.splitlines() if l.strip().startswith("what:")]
        out["checks"][p] = {"rc": rc, "violations": len(viol), "first": what[:1], "wall_s": round(time.time() - t, 1)}
finally:
    shutil.rmtree(scratch, True)
dst = os.path.join(V, "seeded", name)
os.makedirs(dst, exist_ok=True)
for f in ("patch.diff", "demo.py"):
    if os.path.abspath(src) != os.path.abspath(dst):
        shutil.copy(os.path.join(src, f), dst)
meta = json.load(open(os.path.join(src, "meta.json")))
meta["confirmed_by_me"] = out
meta["detected_by"] = sorted(p for p, v in out["checks"].items() if v["rc"] == 1)
json.dump(meta, open(os.path.join(dst, "meta.json"), "w"), indent=1)
print(json.dumps(out, indent=1))
