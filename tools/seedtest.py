#!/venv/bin/python
"""tools/seedtest.py <seed dir> <name> <prop> [<prop>...]
Confirms a seeded change (patch.diff + demo.py + meta.json) against /repo and runs the named checks on it.
Copies it to /verif/seeded/<name>/ with the outcome recorded in meta.json. /repo is restored afterwards."""
import json, os, shutil, subprocess, sys, time
src, name, props = sys.argv[1], sys.argv[2], sys.argv[3:]
V = os.path.dirname(os.path.dirname(os.path.abspath(__file__)))
PY = "/venv/bin/python"
env = dict(os.environ, PYTHONPATH="/repo/src", PYTHONDONTWRITEBYTECODE="1")

def sh(cmd, **kw):
    return subprocess.run(cmd, shell=True, stdout=subprocess.PIPE, stderr=subprocess.STDOUT, text=True, **kw)

assert sh("git -C /repo status --porcelain").stdout.strip() == "", "/repo not clean"
patch = os.path.join(src, "patch.diff")
r = sh("git -C /repo apply --check %s" % patch)
if r.returncode:
    print("PATCH DOES NOT APPLY:", r.stdout); sys.exit(3)
demo = os.path.join(src, "demo.py")
d0 = sh("%s -W ignore %s" % (PY, demo), env=env, timeout=600)
out = {"demo_clean_rc": d0.returncode}
try:
    sh("git -C /repo apply %s" % patch)
    d1 = sh("%s -W ignore %s" % (PY, demo), env=env, timeout=600)
    out["demo_patched_rc"] = d1.returncode
    out["demo_patched_tail"] = d1.stdout[-400:]
    imp = sh("%s -W ignore -c 'import hio.base.doing, hio.core.tcp.serving, hio.core.http.serving, hio.core.memo.memoing'" % PY, env=env)
    out["imports_ok"] = imp.returncode == 0
    out["checks"] = {}
    for p in props:
        t = time.time()
        c = sh("./check %s --tier quick" % p, cwd=V, timeout=3600)
        viol = [l for l in c.stdout.splitlines() if l.startswith("VIOLATION")]
        what = [l.strip() for l in c.stdout.splitlines() if l.strip().startswith("what:")]
        out["checks"][p] = {"rc": c.returncode, "violations": len(viol), "first": what[:1], "wall_s": round(time.time() - t, 1)}
finally:
    sh("git -C /repo checkout -- .")
assert sh("git -C /repo status --porcelain").stdout.strip() == ""
dst = os.path.join(V, "seeded", name)
os.makedirs(dst, exist_ok=True)
for f in ("patch.diff", "demo.py"):
    shutil.copy(os.path.join(src, f), dst)
meta = json.load(open(os.path.join(src, "meta.json")))
meta["confirmed_by_me"] = out
meta["detected_by"] = sorted(p for p, v in out["checks"].items() if v["rc"] == 1)
json.dump(meta, open(os.path.join(dst, "meta.json"), "w"), indent=1)
print(json.dumps(out, indent=1))
