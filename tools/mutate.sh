#!/bin/sh
# tools/mutate.sh <file relative to src> <sed expression> <prop>...   one-line mutant of a SCRATCH copy of /repo/src (never /repo itself); runs the quick checks on it
S=$(mktemp -d /tmp/hio_seed_XXXX); cp -r /repo/src $S/src
f=$1; e=$2; shift 2
sed -i "$e" $S/src/$f
diff -q /repo/src/$f $S/src/$f >/dev/null && echo "NO CHANGE"
for p in "$@"; do HIO_VERIF_SRC=$S/src HIO_VERIF_EVIDENCE=$S/ev VERIF_SEED=1 /verif/check $p --tier quick > $S/out.log 2>&1; echo "$p rc=$?"; grep -m1 "what:" $S/out.log | cut -c1-260; grep -m1 "^note: .*differ from the model" $S/out.log | cut -c1-200; tail -1 $S/out.log | cut -c1-200; done
rm -r "$S"
