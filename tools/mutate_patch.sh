#!/bin/sh
# tools/mutate_patch.sh <patch file (-p1, paths src/...)> <prop>...   applies the patch to a SCRATCH copy of /repo/src
# (never /repo itself) and runs the quick checks on it; prints rc, first violation and the summary line per check
S=$(mktemp -d /tmp/hio_seed_XXXX); cp -r /repo/src $S/src
pf=$1; shift
(cd $S && patch -s -p1 < $pf) || { echo "PATCH FAILED"; rm -r "$S"; exit 3; }
for p in "$@"; do HIO_VERIF_SRC=$S/src HIO_VERIF_EVIDENCE=$S/ev VERIF_SEED=1 /verif/check $p --tier quick > $S/out.log 2>&1; echo "$p rc=$?"; grep -m1 "what:" $S/out.log | cut -c1-300; grep -m1 "^note: .*differ from the model" $S/out.log | cut -c1-200; tail -1 $S/out.log | cut -c1-200; done
rm -r "$S"
