#!/venv/bin/python
"""Regenerate MANIFEST.json from the table below (one entry per claimed property)."""
import json, os
V = os.path.dirname(os.path.dirname(os.path.abspath(__file__)))
ALL = [json.loads(l)["id"] for l in open(os.path.join(V, "properties.jsonl"))]
NOTE = ("Trusted base: TLC 1.8 + standard/Community modules; /venv/bin/python 3.12 semantics; the Python adapter that maps "
        "spec actions to public hio calls and projects observable state. hio is imported from /repo/src on every run.")
# id -> (technique, level text, design ref, extra level note)
CLAIMED = {
 "C27": ("TLA+ spec Namer.tla: TLC exhaustive MC of Bijection/NoChangeOnReject; every model transition replayed on the real "
         "Namer (spec->code); random real traces batch-validated by NamerTrace.tla (code->spec)",
         "Exhaustive model checking of the registry design for 3x3 (quick) / 4x4 (thorough) domains, and conformance of the real "
         "class to the model on every transition of the model plus thousands of longer random executions.", "3 C27", ""),
}
SCHED = ("TLA+ spec specs/sched/Doist.tla (marker-deque scheduler with nested DoDoers as an explicit call stack): TLC exhaustive "
         "MC of the property monitors; maximal behaviours (exhaustive + tlc -simulate) replayed on the real Doist/DoDoer/doer "
         "flavours with the full event log compared (spec->code)")
for pid, (extra, text) in {
 "C01": ("invariants LifeOK/AllOutAtEnd", "every exit path (completion, limit, raise in enter/recur, KeyboardInterrupt, remove, failing enter inside extend) for all forests/scripts within the bounds; per-doer life-cycle of the real run must equal the model's and be well formed"),
 "C02": ("invariants SweepsOrdered(ModuloExtend)/AllOutAtEnd", "forced-close order per scheduler, children before their DoDoer, nothing after do() returns; one known finding (mid-cycle extend) is modelled as coded and matched by signature"),
 "C03": ("refinement PROPERTY DoistRefine!FlatSpec: the deque scheduler refines the abstract cycle model FlatSched.tla", "the real (doer,tyme) recur sequence equals the model's for every behaviour, with four exact time scales, start tymes and tocks"),
 "C04": ("every regrouping refines the same FlatSched instance (TLC refinement check)", "real nested and real flattened forests are run from the same scripts and compared with the model and each other"),
 "C05": ("invariants EndExact/DoneExact", "doist.done, final tyme, how the run ended and every doer.done compared for all limits/completion points in the bounds"),
 "C06": ("invariants OpsExact/LifeOK", "membership after every extend/remove call, the events inside the call, first recur of new doers, no recur of removed doers"),
 "C30": ("same model as C03/C05", "do() and asyncio.run(ado()) on fresh objects must both equal the model's full event log, flags and tyme"),
}.items():
    CLAIMED[pid] = (SCHED + "; " + extra, "Exhaustive model checking of the scheduler design within the stated bounds plus conformance of the real code on every enumerated and on thousands of simulated behaviours: " + text, "3 " + pid, "")
NA = {
 "C28": "pure value-fidelity of json/cbor2/msgpack + dataclass reflection: no state/transition structure for a TLA+ model to decide (DESIGN.md section 4)",
}
checks = []
for pid in ALL:
    if pid in CLAIMED:
        tech, text, ref, note = CLAIMED[pid]
        checks.append({
            "property_id": pid,
            "quick_cmd": "./check %s --tier quick" % pid,
            "thorough_cmd": "./check %s --tier thorough" % pid,
            "evidence_file": "/verif/evidence/%s.json" % pid,
            "replay_cmd_template": "./check %s --replay {path}" % pid,
            "engine": "tlc+python-adapter",
            "level_claimed": {"category": "model_checking", "text": text, "design_ref": "DESIGN.md section " + ref},
            "level_note": (note + " " if note else "") + NOTE,
            "technique": tech,
        })
na = [{"property_id": p, "reason": NA.get(p, "check not built yet in this session (work in progress; see DESIGN.md)")}
      for p in ALL if p not in CLAIMED]
m = {
 "version": 1,
 "setup_cmd": "/venv/bin/python tools/selfcheck.py",
 "hooks": {"guard": "HIO_VERIF", "enable": "no instrumentation hooks are needed or present; checks import /repo/src directly (HIO_VERIF=1 is exported by ./check but read by nothing in hio)",
           "baseline_off_cmd": "cd /repo && /venv/bin/python -m pytest -ra -q -p no:cacheprovider --timeout=900 --continue-on-collection-errors",
           "source_commits": [], "add_only": True},
 "engines": [{"name": "tlc+python-adapter", "path": "/verif/check", "serves_properties": sorted(CLAIMED),
              "kind_free_text": "TLA+ specs under /verif/specs checked by TLC; spec->code replay and code->spec trace validation by /verif/harness"}],
 "checks": checks,
 "not_applicable": na,
 "notes": "fix: commits in /repo are listed in known_findings.json under 'fixed'.",
}
json.dump(m, open(os.path.join(V, "MANIFEST.json"), "w"), indent=1)
print("claimed", len(checks), "not_applicable", len(na))
