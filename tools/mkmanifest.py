#!/venv/bin/python
"""Regenerate MANIFEST.json from the table below (one entry per claimed property)."""
import json, os
V = os.path.dirname(os.path.dirname(os.path.abspath(__file__)))
ALL = [json.loads(l)["id"] for l in open(os.path.join(V, "properties.jsonl"))]
NOTE = ("Trusted base: TLC 1.8 + standard/Community modules; /venv/bin/python 3.12 semantics; the Python adapter that maps "
        "spec actions to public hio calls and projects observable state. hio is imported from /repo/src on every run.")
# id -> (technique, level text, design ref, extra level note)
CLAIMED = {
 "C27": ("TLA+ spec Namer.tla: TLC exhaustive MC of Bijection/NoChangeOnReject; every model transition replayed on the real "
         "Namer (spec->code); random real traces batch-validated by NamerTrace.tla (code->spec)",
         "Exhaustive model checking of the registry design for 3x3 (quick) / 4x4 (thorough) domains, and conformance of the real "
         "class to the model on every transition of the model plus thousands of longer random executions.", "3 C27", ""),
}
SCHED = ("TLA+ spec specs/sched/Doist.tla (marker-deque scheduler with nested DoDoers as an explicit call stack): TLC exhaustive "
         "MC of the property monitors; maximal behaviours (exhaustive + tlc -simulate) replayed on the real Doist/DoDoer/doer "
         "flavours with the full event log compared (spec->code)")
for pid, (extra, text) in {
 "C01": ("invariants LifeOK/AllOutAtEnd", "every exit path (completion, limit, raise in enter/recur, KeyboardInterrupt, remove, failing enter inside extend) for all forests/scripts within the bounds; per-doer life-cycle of the real run must equal the model's and be well formed"),
 "C02": ("invariants SweepsOrdered(ModuloExtend)/AllOutAtEnd", "forced-close order per scheduler, children before their DoDoer, nothing after do() returns; one known finding (mid-cycle extend) is modelled as coded and matched by signature"),
 "C03": ("refinement PROPERTY DoistRefine!FlatSpec: the deque scheduler refines the abstract cycle model FlatSched.tla", "the real (doer,tyme) recur sequence equals the model's for every behaviour, with four exact time scales, start tymes and tocks"),
 "C04": ("every regrouping refines the same FlatSched instance (TLC refinement check)", "real nested and real flattened forests are run from the same scripts and must equal each other (leaf events, completion, done flags); a difference both share with the model is recorded as a divergence"),
 "C05": ("invariants EndExact/DoneExact", "doist.done, final tyme, how the run ended and every doer.done compared for all limits/completion points in the bounds"),
 "C06": ("invariants OpsExact/LifeOK", "membership after every extend/remove call, the events inside the call, first recur of new doers, no recur of removed doers (a removed doer may be an idle DoDoer(always=True), whose done flag is True while it runs)"),
 "C30": ("same model as C03/C05", "do() and asyncio.run(ado()) are run on fresh objects from the same script and must equal each other in the full event log, flags, tyme and membership; a difference both share with the model is recorded as a divergence"),
}.items():
    CLAIMED[pid] = (SCHED + "; " + extra, "Exhaustive model checking of the scheduler design within the stated bounds plus conformance of the real code on every enumerated and on thousands of simulated behaviours: " + text, "3 " + pid, "")
TIME_NOTE = ("The property's own clauses are evaluated on the real observations and decide a violation; where the property does "
             "not fix the exact value (hidden backward clock jumps) a difference from the model is recorded in the evidence as a "
             "divergence, not an alarm.")
CLAIMED["C07"] = (
    "TLA+ spec specs/time/RealPacing.tla (MonoTimer fields + the real-time do() loop against an adversarial wall clock = "
    "mono + off): TLC exhaustive MC of NeverEarly/NoDrift; every maximal behaviour of a small environment and thousands of "
    "simulated ones of a larger one replayed on a real Doist(real=True) whose time module is a fake driven by the behaviour "
    "(spec->code); never-early and lossless-waiting evaluated on the real cycle start times",
    "Exhaustive model checking of pacing for all clock environments in the bounds (tock at construction / changed before the "
    "run, work, sleep overshoot, backward jumps before and during the run) plus conformance of the real blocking do() loop on "
    "every enumerated and simulated environment.", "3 C07", TIME_NOTE)
CLAIMED["C08"] = (
    "TLA+ specs specs/time/Tymer.tla (ExpiredExact, RestartLossless) and specs/time/MonoTimer.tla (ElapsedMonotone, "
    "ExpiredSticky as action properties): TLC exhaustive MC; op sequences with the model's expected reports (exhaustive short, "
    "tlc -simulate long) replayed on the real Tymer/Tymist and the real MonoTimer with a fake time module (spec->code)",
    "Exhaustive model checking of both timers for all op/clock sequences in the bounds plus conformance of the real classes: "
    "every Tymer report must equal the exact value; MonoTimer reports must be exact while the clock has not stepped back and "
    "monotone/sticky afterwards.", "3 C08", TIME_NOTE)
CLAIMED["C23"] = (
    "TLA+ spec specs/store/Queue.tla (cache + durable mirror + abstract queue/set, one action per public operation structured "
    "like the code, close/reopen/resync of the store between any two operations): TLC exhaustive MC of Mirror/IsModel/"
    "NoMismatch/SetUnique/FifoPull; operation histories with expected result, content and durable content (all short ones + "
    "tlc -simulate) executed on real Durq/Dusq injected by a real Hold over a real Subery (LMDB) (spec->code); beyond the property, "
    "specs/store/Can.tla (the third durable kind, Can objects: set/update/sync/pin/inject/close/open as coded) is model checked "
    "and replayed the same way, differences recorded as divergences",
    "Exhaustive model checking of the queue/set design with reopen at every point, within the bounds, plus conformance of the real "
    "classes over a real LMDB store on every enumerated and on thousands of simulated histories (result, list(q) and sdb.get(key) "
    "after every operation, before and after reopen).", "3 C23", "")
CLAIMED["C24"] = (
    "TLA+ spec specs/store/KeyStore.tla (dictionary + implementation model of the ordered key space with real byte-string keys "
    "and 32-hex-digit ordinals, every method the cursor scan the code performs): TLC exhaustive MC of ResultsAgree/ContentAgrees "
    "on key sets with prefixes and separator characters; on key sets with the known finding's signature TLC is expected to reach "
    "the violation; operation histories executed on real Suber/IoSuber/IoSetSuber over LMDB and compared with the dictionary "
    "(spec->code), a difference being the listed finding only if the implementation model predicts exactly that result",
    "Exhaustive model checking of dictionary refinement by the key-space implementation within the bounds plus conformance of the "
    "three real classes on every enumerated and simulated history; one known finding (key interleaving) matched by signature.",
    "3 C24", "")
CLAIMED["C26"] = (
    "TLA+ spec specs/misc/B64.tla (digit/bit-sequence specification of the conversions + the code's arithmetic transcribed): "
    "TLC exhaustive MC of ArithIsSpec/IntInverse/CodeInverse/NabKeepsLeadingBits; expected results of every conversion for every "
    "input of the domain replayed on the real functions (spec->code); recorded calls on long inputs validated in batch by "
    "B64Trace.tla (code->spec)",
    "Exhaustive model checking of the inverse laws and of the arithmetic for every input in the bounds (all 1-3 sextet strings, "
    "boundary alphabets up to 6) plus conformance of the six real functions on every such input and on recorded calls with inputs "
    "of up to 24 sextets.", "3 C26", "")
CLAIMED["C25"] = (
    "TLA+ spec specs/box/Boxwork.tla (box forests, active pile, one action per pass of Boxer.run: armed transition acts in "
    "evaluation order, failing entry preconditions, end): TLC exhaustive MC over every ordered forest of <= 4 (quick) / 5 boxes of "
    "the clause-by-clause invariants ExitBottomUp/EnterTopDown/PhaseOrder/DeclOrder/OnceEach/SetsExact/NoActsWhenNotFired/"
    "EndExitsAll; every model transition executed on a real Boxer of real Box objects with logging acts and the action trace and "
    "active box compared (spec->code)",
    "Exhaustive model checking of the documented transition order over all box forests within the bound plus conformance of the "
    "real Boxer on every transition of the model (every active box, every firing box/destination, forced re-entry, keep-trying "
    "after a failed precondition, end).", "3 C25", "")
CLAIMED["C29"] = (
    "TLA+ spec specs/misc/FilerPath.tla (path algebra over head/tail/base/name with '.' and '..' segments, extension rule, "
    "filesystem effects of Open and Close(clear) for persistent and temp resources): TLC exhaustive MC of Contained/"
    "ClearRemovesOwn/NothingOnRefusal over all 32 flag combinations x bases x names in the bounds; every configuration of the "
    "model executed with a real Filer in a guarded scratch sandbox and compared (refusal, .path, created/deleted paths, state "
    "after close) (spec->code)",
    "Exhaustive model checking of the containment and clear rules for every configuration within the bounds plus conformance of "
    "the real Filer on every one of them, with all filesystem mutations intercepted by a guard that refuses anything outside the "
    "sandbox before it happens.", "3 C29", "")
CONN = ("TLA+ spec specs/tcp/Conn.tla (per connection: queued/txbs/wire/log, kernel buffer/rxbs/log, cutoff, handshake state; one "
        "action per call with the kernel's answer to each syscall as parameter; Server pass over several connections)")
CLAIMED["C09"] = (
    CONN + ": TLC exhaustive MC of Conservation/RxConservation/LogExact/SendProgress; behaviours (all short + tlc -simulate) executed "
    "on real Client, ClientTls, Remoter, RemoterTls over scripted fake sockets, every byte of txbs, wire, rxbs and both wire logs "
    "compared after each step (spec->code)",
    "Exhaustive model checking of the byte-stream invariants for all partial-send / would-block / short-read / EOF patterns in the "
    "bounds plus conformance of the four real endpoint classes on every enumerated and on thousands of simulated behaviours.",
    "3 C09", "")
CLAIMED["C10"] = (
    CONN + ": TLC exhaustive MC of NeverRaised/FaultCutsOff/AbortedStays/SiblingUntouched with faults at every send, recv and "
    "handshake; behaviours with an abstract fault executed on the four real endpoint classes once per concrete errno / SSL EOF "
    "(spec->code); random executions of real Server and ServerTls with three scripted connections recorded per service() call and "
    "validated in batch by ConnTrace.tla (code->spec)",
    "Exhaustive model checking of fault handling within the bounds plus conformance of the real endpoint classes for every listed "
    "errno at every fault position, and trace validation of hundreds (quick) / thousands of real server executions in which a "
    "quarter of all syscall answers are faults.", "3 C10", "")
CLAIMED["C11"] = (
    "TLA+ spec specs/tcp/Sockets.tla (socket ids, open set, listen slot, pending-handshake and serviceable connections by peer "
    "address, client socket; accept / replace / handshake ok|pending|aborted / remove / close / reopen / connect ok|wait|refused): "
    "TLC exhaustive MC of NoOrphan/ClosedIsClosed/ClientSingle; histories executed on real Server, ServerTls and Client whose "
    "socket module is a registering fake (strong references), open-socket set compared after every event (spec->code)",
    "Exhaustive model checking of socket ownership for all histories within the bounds plus conformance of the real classes on "
    "every enumerated and on thousands of simulated histories.", "3 C11", "")
CLAIMED["C12"] = (
    "TLA+ spec specs/http/Idle.tla (virtual tyme, one service() per tick, client activity per tick: nothing / bytes of an unfinished "
    "request / a complete persistent request / a non persistent request answered by a streaming application in pieces, "
    "stalled, to a peer that stopped reading so that every send() would block, or to a peer that reads slowly so that a few bytes leave at every service; at most one Server.wind()): TLC exhaustive MC of the action properties ClosedOnlyIfIdle/IdleGetsClosed/"
    "TrafficKeepsOpen/PersistentStays for T in {1,2,3}; every behaviour executed on real http.Server (plain and TLS servant) and "
    "http.BareServer driven by a Tymist over scripted sockets, the tick at which the peer socket is closed compared (spec->code)",
    "Exhaustive model checking of the idle rule for every activity timing over 7 (quick) / 9 ticks and three tymeouts plus "
    "conformance of the three real server flavours on every such behaviour at three exact time scales.", "3 C12", "")
CLAIMED["C13"] = (
    "TLA+ specs specs/http/LineFrame.tla (byte-level incremental line framing over {CR, LF, other}: earliest terminator, ties to "
    "the first listed, trailing CR held back; every string <= 6 cut into reads in every way; invariants Confluent/PrefixOfWhole; the "
    "pre-repair algorithm is kept as Algo=listed and refuted by TLC) and specs/http/Message.tla (grammar of well-formed requests/"
    "responses with their abstract parse result): every (string, fragmentation) fed to the real parseLine; every generated message "
    "and pipeline fed to real Requestant/Respondent whole, bytewise, in all 1-cuts and in 2-cuts around token boundaries, every "
    "fragmentation compared with the whole feed (spec->code)",
    "Exhaustive model checking of line framing confluence within the bounds plus conformance of the real line parser on every "
    "enumerated case, and differential fragmentation testing of the real request and response parsers on every message of the "
    "TLA+ grammar (hundreds of thousands of fragmentations).", "3 C13",
    "A difference between the whole-feed result and the grammar's abstract result that is the same for every fragmentation is "
    "recorded as a divergence, not an alarm (the property is about fragmentation only).")
CLAIMED["C15"] = (
    "TLA+ specs specs/http/Sse.tla (event-stream dispatch rules over line kinds with per-line terminators CRLF|LF|CR; invariants "
    "EventsHaveData/IdPersists/LeidIsLastId) and specs/http/LineFrame.tla with terminators (CRLF, LF, CR) (Confluent for every string "
    "<= 6 and every fragmentation): TLC exhaustive MC; every generated stream (all short + tlc -simulate long ones) concretised and fed "
    "to a real EventSource and a real Respondent (plain and inside chunked coding) whole, bytewise, in every 1-cut / 2-cut, events, "
    "last event id and retry compared with the model's dispatch (spec->code)",
    "Exhaustive model checking of dispatch and of byte-level line framing within the bounds plus conformance of the real event "
    "source and response parser on every generated stream under every fragmentation of the stated kinds.", "3 C15", "")
CLAIMED["C17"] = (
    "TLA+ spec specs/http/ChunkFrame.tla (encoder and receiver state machine of chunked coding: RoundTrip for every body, division "
    "into chunks, extensions and trailers; classification of every chunk-size string over {0,1,a,-,+,x,_,blank} into accept/reject/"
    "don't-care): TLC exhaustive MC; every coding case serialised with the real packChunk and decoded by the real parseChunk, "
    "Requestant and Respondent whole, bytewise and in every 1-cut; every size string placed in an otherwise valid message: accepted "
    "ones must decode exactly that many bytes, rejected ones must be reported as an error (spec->code)",
    "Exhaustive model checking of the coding round trip and of the size classification within the bounds plus conformance of the "
    "three real decoders on every case.", "3 C17", "")
CLAIMED["C16"] = (
    "TLA+ spec specs/http/Robust.tla (allowed outcomes of servicing per input class on two connections: NeverRaised, "
    "SiblingServed) checked by TLC; real http.Server (WSGI), http.BareServer and http.Client driven over scripted sockets with "
    "well formed messages, every named malformation in concrete variants, every truncation, token-level mutations of messages "
    "generated from specs/http/Message.tla and random bytes, whole and byte by byte; every execution recorded as (connection, "
    "class, outcome) events and validated in batch by RobustTrace.tla (code->spec): an event whose servicing raised, or a well "
    "formed request on a clean sibling connection that is not served, is rejected",
    "Model checking of the outcome rules plus trace validation of thousands of real server and client executions on malformed "
    "and random input (fault_enumeration over the named malformation classes, whole and bytewise).", "3 C16", "")
CLAIMED["C18"] = (
    "TLA+ spec specs/http/Wsgi.tla (request sequences x application behaviours -> framing, body, close decision per response; "
    "invariants SelfDelimiting/InOrder/BodyWithinCL/CloseIffNotPersistent/NothingAfterClose): TLC exhaustive MC; every behaviour "
    "executed on a real http.Server with a scripted WSGI application over scripted sockets (pipelined and one at a time, list and "
    "generator bodies), the received bytes cut into responses by http.client.HTTPResponse and compared with the model (spec->code)",
    "Exhaustive model checking of the framing rules for all request/application sequences in the bounds plus conformance of the "
    "real server on every enumerated behaviour, judged through an independent HTTP parser.", "3 C18", "")
CLAIMED["C19"] = (
    "TLA+ spec specs/http/ClientQueue.tla (request queue, in-flight request, redirect hops, current server, wire log, response "
    "queue; server scripts ok / delayed / 201 Created with a Location field / 304 with a Content-Length field / redirect relative, absolute, two hops, other server, https->http / close before or "
    "during the answer): TLC exhaustive MC of OneAtATime/FifoOneToOne/WireInQueueOrder/RedirectTransparent/NoDowngrade/"
    "EveryRequestAnswered; every queue executed on a real http.Client over scripted sockets against a scripted peer, response queue "
    "and wire sequence compared (spec->code)",
    "Exhaustive model checking of the queue discipline for every script queue in the bounds, plain and secure, plus conformance of "
    "the real client on every one of them.", "3 C19", "")
CLAIMED["C14"] = (
    "TLA+ spec specs/http/ReqChannel.tla (the client -> wire -> server request channel specified as the identity on method, path, "
    "query arguments, header value and body; input space of 13 character classes per field with up to two fields away from the "
    "default, methods and body kinds; don't-care cases marked): TLC enumerates the space and checks Identity; every request "
    "concretised, built by the real Requester, parsed by the real Requestant and Server.buildEnviron and compared with what went "
    "in, query strings decoded by urllib.parse.parse_qsl (spec->code, model-generated inputs)",
    "Model-generated systematic input space (all pairs of fields x all pairs of character classes) with the identity oracle, every "
    "case executed through the real encoder and decoder. The encoding itself is not modelled (encode/decode fidelity is at the edge "
    "of what a TLA+ model decides; said so in DESIGN.md).", "3 C14", "")
CLAIMED["C21"] = (
    "TLA+ spec specs/memo/TxPressure.tla (.txgs queue, gram in flight .txbs, bytes accepted per destination, dropped grams; one "
    "action per serviceTxGramsOnce() with the transport's answer: accept k of the offered bytes, 0 = would block, or unreachable): "
    "TLC exhaustive MC of WireExact/NoLoss/OneInFlight; histories (all short + tlc -simulate) executed on a real Memoer with "
    "scripted send() and on real UDP and UXD PeerMemoers over a scripted datagram socket, bytes accepted per destination compared "
    "after each call and a final drain with an all-accepting transport (spec->code); beyond the property, specs/help/Deck.tla (the "
    "queue class of the message paths: push/pull/append/appendleft/extend/pop/clear) is model checked and replayed on real Deck "
    "objects the same way, differences recorded as divergences",
    "Exhaustive model checking of the transmit discipline for all acceptance patterns within the bounds plus conformance of the "
    "three real classes on every enumerated and on thousands of simulated histories.", "3 C21",
    "Queue length and remainder in flight are compared with the model too, but a difference there alone is a recorded divergence; "
    "lost, duplicated or reordered bytes decide.")
CLAIMED["C20"] = (
    "TLA+ spec specs/memo/Segment.tla (receiver state as coded: stored gram numbers, gram count, signer known; any gram of any memo "
    "delivered at any time; ghost history for the two listed findings): TLC exhaustive MC of NoPartialDelivery and of AtMostOnce / "
    "DeliveredWhenComplete modulo the findings, and reachability of both findings; delivery sequences (all short + tlc -simulate) "
    "replayed on a real receiving Memoer/AuthMemoer with real grams rent by a real sender for all four zeroth-gram codes x base64/"
    "binary headers, delivered (text, source, signer) compared after every delivery (spec->code); segmentation sweep over every "
    "legal gram size from the minimum up",
    "Exhaustive model checking of reassembly under reorder/duplication/interleaving within the bounds plus conformance of the real "
    "receivers on every enumerated and simulated delivery sequence; two known findings (redelivery, signed reorder) matched by "
    "signature.", "3 C20", "")
CLAIMED["C22"] = (
    "TLA+ spec specs/memo/RxGuard.tla (allowed outcomes of servicing per datagram class with and without required signatures: "
    "NeverRaised, AuthenticOnly) checked by TLC; real Memoer/AuthMemoer receivers serviced on every truncation, byte substitutions at "
    "every position, header field substitutions and random bytes of real signed/unsigned, base64/binary, zeroth/non-zeroth grams, "
    "each followed by the intact rest of the memo; every execution recorded as (class, outcome) and validated in batch by "
    "RxGuardTrace.tla (code->spec)",
    "Model checking of the outcome rules plus trace validation of thousands of real receive executions on altered and random "
    "datagrams (fault enumeration over truncations and byte/field substitutions).", "3 C22", "")
NA = {
 "C28": "pure value-fidelity of json/cbor2/msgpack + dataclass reflection: no state/transition structure for a TLA+ model to decide (DESIGN.md section 4)",
}
checks = []
for pid in ALL:
    if pid in CLAIMED:
        tech, text, ref, note = CLAIMED[pid]
        checks.append({
            "property_id": pid,
            "quick_cmd": "./check %s --tier quick" % pid,
            "thorough_cmd": "./check %s --tier thorough" % pid,
            "evidence_file": "/verif/evidence/%s.json" % pid,
            "replay_cmd_template": "./check %s --replay {path}" % pid,
            "engine": "tlc+python-adapter",
            "level_claimed": {"category": "model_checking", "text": text, "design_ref": "DESIGN.md section " + ref},
            "level_note": (note + " " if note else "") + NOTE,
            "technique": tech,
        })
na = [{"property_id": p, "reason": NA.get(p, "check not built yet in this session (work in progress; see DESIGN.md)")}
      for p in ALL if p not in CLAIMED]
m = {
 "version": 1,
 "setup_cmd": "/venv/bin/python tools/selfcheck.py",
 "hooks": {"guard": "HIO_VERIF", "enable": "no instrumentation hooks are needed or present; checks import /repo/src directly (HIO_VERIF=1 is exported by ./check but read by nothing in hio)",
           "baseline_off_cmd": "cd /repo && /venv/bin/python -m pytest -ra -q -p no:cacheprovider --timeout=900 --continue-on-collection-errors",
           "source_commits": [], "add_only": True},
 "engines": [{"name": "tlc+python-adapter", "path": "/verif/check", "serves_properties": sorted(CLAIMED),
              "kind_free_text": "TLA+ specs under /verif/specs checked by TLC; spec->code replay and code->spec trace validation by /verif/harness"}],
 "checks": checks,
 "not_applicable": na,
 "notes": "fix: commits in /repo are listed in known_findings.json under 'fixed'. When a projection of the real run differs from the model, the property is evaluated on the real run alone and decides (DESIGN.md section 0.8 item 7).",
}
json.dump(m, open(os.path.join(V, "MANIFEST.json"), "w"), indent=1)
print("claimed", len(checks), "not_applicable", len(na))
